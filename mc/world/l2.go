package world

import (
	"bytes"
	"encoding/binary"
	"sort"
	"strings"
	"time"

	"cosmossdk.io/log"
	"cosmossdk.io/store"
	"cosmossdk.io/store/metrics"
	storetypes "cosmossdk.io/store/types"

	abci "github.com/cometbft/cometbft/abci/types"
	tmproto "github.com/cometbft/cometbft/proto/tendermint/types"
	dbm "github.com/cosmos/cosmos-db"
	"github.com/cosmos/cosmos-sdk/baseapp"
	"github.com/cosmos/cosmos-sdk/runtime"
	sdk "github.com/cosmos/cosmos-sdk/types"
	"github.com/cosmos/cosmos-sdk/types/module"
	"github.com/cosmos/cosmos-sdk/x/auth"
	authante "github.com/cosmos/cosmos-sdk/x/auth/ante"
	authcodec "github.com/cosmos/cosmos-sdk/x/auth/codec"
	authkeeper "github.com/cosmos/cosmos-sdk/x/auth/keeper"
	authtypes "github.com/cosmos/cosmos-sdk/x/auth/types"
	"github.com/cosmos/cosmos-sdk/x/bank"
	bankkeeper "github.com/cosmos/cosmos-sdk/x/bank/keeper"
	banktypes "github.com/cosmos/cosmos-sdk/x/bank/types"

	oraclekeeper "github.com/skip-mev/connect/v2/x/oracle/keeper"
	oracletypes "github.com/skip-mev/connect/v2/x/oracle/types"

	opchild "github.com/initia-labs/OPinit/x/opchild"
	opchildkeeper "github.com/initia-labs/OPinit/x/opchild/keeper"
	opchildtypes "github.com/initia-labs/OPinit/x/opchild/types"
)

// L2 is a chain with auth, bank, connect x/oracle and opchild, wired like the repository's
// common_test.go (real ante decorator chain for deposit hooks, real bank msg server as hook target).
type L2 struct {
	Ctx       sdk.Context
	StoreKeys []storetypes.StoreKey
	Enc       EncodingConfig
	AK        authkeeper.AccountKeeper
	BK        bankkeeper.BaseKeeper
	OK        *oraclekeeper.Keeper
	K         *opchildkeeper.Keeper
	Msg       *opchildkeeper.MsgServer
	Q         opchildtypes.QueryServer
	Router    *baseapp.MsgServiceRouter
	Authority string // opchild module account
	ChainID   string
	// GenesisUpdates are the validator updates InitGenesis returned.
	GenesisUpdates []abci.ValidatorUpdate
	keys           map[string]*storetypes.KVStoreKey
	opt            L2Options
}

var L2Basics = module.NewBasicManager(auth.AppModuleBasic{}, bank.AppModuleBasic{}, opchild.AppModuleBasic{})

var L2GenesisTime = time.Date(2020, time.April, 22, 12, 0, 0, 0, time.UTC)

type L2Options struct {
	Accounts  map[string]sdk.Coins
	Admin     string   // account name
	Executors []string // account names
	Params    func(p *opchildtypes.Params)
	// Wrap lets a check interpose on the keepers handed to opchild (fault injection, C07).
	WrapBank func(opchildtypes.BankKeeper) opchildtypes.BankKeeper
	WrapAcc  func(opchildtypes.AccountKeeper) opchildtypes.AccountKeeper
	// WrapAnteAcc interposes on the account keeper of the hook's decorator chain.
	WrapAnteAcc func(authante.AccountKeeper) authante.AccountKeeper
	// WrapBankMsg lets a check interpose on the bank msg server registered in the router (hook target).
	WrapBankMsg func(banktypes.MsgServer) banktypes.MsgServer
	// Genesis validators: (operator name, consensus key name)
	Validators [][2]string
	// UpperCaseGenesisOperators spells the operator addresses of the genesis validators in upper-case bech32
	// (a genesis file is written by hand; the spelling is legal and is stored as written)
	UpperCaseGenesisOperators bool
	Height                    int64
	// Blank leaves every store empty (no params, no genesis, no accounts): the target of a genesis import.
	Blank bool
}

func NewL2(opt L2Options) *L2 {
	db := dbm.NewMemDB()
	order := []string{authtypes.StoreKey, banktypes.StoreKey, opchildtypes.StoreKey, oracletypes.StoreKey}
	keys := storetypes.NewKVStoreKeys(order...)
	ms := store.NewCommitMultiStore(db, log.NewNopLogger(), metrics.NewNoOpMetrics())
	var sks []storetypes.StoreKey
	for _, n := range order {
		ms.MountStoreWithDB(keys[n], storetypes.StoreTypeIAVL, db)
		sks = append(sks, keys[n])
	}
	if err := ms.LoadLatestVersion(); err != nil {
		panic(err)
	}
	h := opt.Height
	if h == 0 {
		h = 10
	}
	chainID := "l2-verif"
	ctx := sdk.NewContext(ms, tmproto.Header{Height: h, Time: L2GenesisTime, ChainID: chainID}, false, log.NewNopLogger())
	// the consensus parameters a CometBFT chain starts with: ed25519 validator keys only
	ctx = ctx.WithConsensusParams(tmproto.ConsensusParams{Validator: &tmproto.ValidatorParams{PubKeyTypes: []string{"ed25519"}}})

	w := &L2{Ctx: ctx, StoreKeys: sks, Enc: MakeEncodingConfig(L2Basics), ChainID: chainID, keys: keys, opt: opt}
	w.wire()
	ak, bk, k := w.AK, w.BK, w.K
	if !opt.Blank {
		if err := ak.Params.Set(ctx, authtypes.DefaultParams()); err != nil {
			panic(err)
		}
		if err := bk.SetParams(ctx, banktypes.DefaultParams()); err != nil {
			panic(err)
		}
	}
	params := opchildtypes.DefaultParams()
	admin := opt.Admin
	if admin == "" {
		admin = "admin"
	}
	params.Admin = Addr(admin).String()
	params.BridgeExecutors = nil
	for _, e := range opt.Executors {
		params.BridgeExecutors = append(params.BridgeExecutors, Addr(e).String())
	}
	if len(params.BridgeExecutors) == 0 {
		params.BridgeExecutors = []string{Addr("executor").String()}
	}
	if opt.Params != nil {
		opt.Params(&params)
	}
	if !opt.Blank {
		ak.GetModuleAccount(ctx, opchildtypes.ModuleName)
		ak.GetModuleAccount(ctx, authtypes.Minter)
		ak.GetModuleAccount(ctx, authtypes.FeeCollectorName)
	}

	if opt.Blank {
		return w
	}
	// genesis through the real InitGenesis
	gs := opchildtypes.DefaultGenesisState()
	gs.Params = params
	for _, v := range opt.Validators {
		val, err := opchildtypes.NewValidator(sdk.ValAddress(Addr(v[0])), EdKey(v[1]).PubKey(), v[0])
		if err != nil {
			panic(err)
		}
		if opt.UpperCaseGenesisOperators {
			val.OperatorAddress = strings.ToUpper(val.OperatorAddress)
		}
		gs.Validators = append(gs.Validators, val)
	}
	w.GenesisUpdates = k.InitGenesis(ctx, gs)

	for _, name := range SortedKeys(opt.Accounts) {
		w.CreateAccount(ctx, name, opt.Accounts[name])
	}
	return w
}

// wire constructs the keepers, servers and router over the world's store keys. It writes nothing.
func (w *L2) wire() {
	keys, enc, ctx, opt := w.keys, w.Enc, w.Ctx, w.opt
	maccPerms := map[string][]string{
		authtypes.FeeCollectorName: nil,
		opchildtypes.ModuleName:    {authtypes.Burner, authtypes.Minter},
		authtypes.Minter:           {authtypes.Minter, authtypes.Burner},
	}
	authority := authtypes.NewModuleAddress(opchildtypes.ModuleName).String()
	ak := authkeeper.NewAccountKeeper(enc.Marshaler, runtime.NewKVStoreService(keys[authtypes.StoreKey]),
		authtypes.ProtoBaseAccount, maccPerms,
		authcodec.NewBech32Codec(sdk.GetConfig().GetBech32AccountAddrPrefix()),
		sdk.GetConfig().GetBech32AccountAddrPrefix(), authority)
	blocked := map[string]bool{}
	for acc := range maccPerms {
		blocked[authtypes.NewModuleAddress(acc).String()] = true
	}
	bk := bankkeeper.NewBaseKeeper(enc.Marshaler, runtime.NewKVStoreService(keys[banktypes.StoreKey]), ak, blocked, authority, ctx.Logger())
	router := baseapp.NewMsgServiceRouter()
	router.SetInterfaceRegistry(enc.InterfaceRegistry)
	var bankMsg banktypes.MsgServer = bankkeeper.NewMsgServerImpl(bk)
	if opt.WrapBankMsg != nil {
		bankMsg = opt.WrapBankMsg(bankMsg)
	}
	banktypes.RegisterMsgServer(router, bankMsg)

	ok := oraclekeeper.NewKeeper(runtime.NewKVStoreService(keys[oracletypes.StoreKey]), enc.Marshaler, nil, authtypes.NewModuleAddress(opchildtypes.ModuleName))

	var obk opchildtypes.BankKeeper = bk
	if opt.WrapBank != nil {
		obk = opt.WrapBank(bk)
	}
	var oak opchildtypes.AccountKeeper = ak
	if opt.WrapAcc != nil {
		oak = opt.WrapAcc(ak)
	}
	var anteAK authante.AccountKeeper = ak
	if opt.WrapAnteAcc != nil {
		anteAK = opt.WrapAnteAcc(ak)
	}
	k := opchildkeeper.NewKeeper(enc.Marshaler, runtime.NewKVStoreService(keys[opchildtypes.StoreKey]), oak, obk, &ok,
		sdk.ChainAnteDecorators(
			authante.NewSetPubKeyDecorator(anteAK),
			authante.NewValidateSigCountDecorator(anteAK),
			authante.NewSigGasConsumeDecorator(anteAK, authante.DefaultSigVerificationGasConsumer),
			authante.NewSigVerificationDecorator(anteAK, enc.TxConfig.SignModeHandler()),
			authante.NewIncrementSequenceDecorator(anteAK),
		),
		enc.TxConfig.TxDecoder(), router, authority,
		authcodec.NewBech32Codec(sdk.GetConfig().GetBech32AccountAddrPrefix()),
		authcodec.NewBech32Codec(sdk.GetConfig().GetBech32ValidatorAddrPrefix()),
		authcodec.NewBech32Codec(sdk.GetConfig().GetBech32ConsensusAddrPrefix()),
		ctx.Logger())
	msgServer := opchildkeeper.NewMsgServerImpl(k)
	opchildtypes.RegisterMsgServer(router, msgServer)

	w.AK, w.BK, w.OK, w.K, w.Msg, w.Q, w.Router, w.Authority = ak, bk, &ok, k, msgServer, opchildkeeper.NewQuerier(k), router, authority
}

// Respawn returns a node that has just been started on this world's stores: newly constructed
// keepers, servers and router (nothing any earlier execution left in process memory), over the
// same store keys, so that it runs on every context of the original world. It writes nothing.
func (w *L2) Respawn() *L2 {
	n := &L2{Ctx: w.Ctx, StoreKeys: w.StoreKeys, Enc: w.Enc, ChainID: w.ChainID, keys: w.keys, opt: w.opt, GenesisUpdates: w.GenesisUpdates}
	n.wire()
	return n
}

func (w *L2) CreateAccount(ctx sdk.Context, name string, coins sdk.Coins) {
	addr := Addr(name)
	if !w.AK.HasAccount(ctx, addr) {
		w.AK.SetAccount(ctx, w.AK.NewAccountWithAddress(ctx, addr))
	}
	if !coins.Empty() {
		if err := w.BK.MintCoins(ctx, authtypes.Minter, coins); err != nil {
			panic(err)
		}
		if err := w.BK.SendCoinsFromModuleToAccount(ctx, authtypes.Minter, addr, coins); err != nil {
			panic(err)
		}
	}
}

func (w *L2) Deliver(ctx sdk.Context, msg sdk.Msg) DeliverResult {
	return Deliver(ctx, w.Router, w.Enc.Marshaler, msg)
}

// PlansBytes canonically encodes the keeper's process-local plan table (part of the state).
func PlansBytes(plans map[uint64]opchildtypes.ExecutorChangePlan) []byte {
	hs := make([]uint64, 0, len(plans))
	for h := range plans {
		hs = append(hs, h)
	}
	sort.Slice(hs, func(i, j int) bool { return hs[i] < hs[j] })
	var buf bytes.Buffer
	for _, h := range hs {
		p := plans[h]
		var b [8]byte
		binary.BigEndian.PutUint64(b[:], h)
		buf.Write(b[:])
		binary.BigEndian.PutUint64(b[:], p.ProposalID)
		buf.Write(b[:])
		buf.WriteString(p.NextValidator.OperatorAddress)
		if p.NextValidator.ConsensusPubkey != nil {
			buf.Write(p.NextValidator.ConsensusPubkey.Value)
		}
		for _, e := range p.NextExecutors {
			buf.WriteString(e)
			buf.WriteByte(0)
		}
		buf.WriteString(p.Info)
		buf.WriteByte(0xff)
	}
	return buf.Bytes()
}

func ClonePlans(plans map[uint64]opchildtypes.ExecutorChangePlan) map[uint64]opchildtypes.ExecutorChangePlan {
	out := make(map[uint64]opchildtypes.ExecutorChangePlan, len(plans))
	for k, v := range plans {
		out[k] = v
	}
	return out
}

func (w *L2) Digest(ctx sdk.Context, extra ...[]byte) [32]byte {
	return Digest(ctx, w.StoreKeys, extra...)
}
