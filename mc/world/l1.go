package world

import (
	"context"
	"encoding/binary"
	"time"

	"cosmossdk.io/log"
	"cosmossdk.io/math"
	"cosmossdk.io/store"
	"cosmossdk.io/store/metrics"
	storetypes "cosmossdk.io/store/types"

	tmproto "github.com/cometbft/cometbft/proto/tendermint/types"
	dbm "github.com/cosmos/cosmos-db"
	"github.com/cosmos/cosmos-sdk/baseapp"
	"github.com/cosmos/cosmos-sdk/runtime"
	sdk "github.com/cosmos/cosmos-sdk/types"
	"github.com/cosmos/cosmos-sdk/types/module"
	"github.com/cosmos/cosmos-sdk/x/auth"
	authcodec "github.com/cosmos/cosmos-sdk/x/auth/codec"
	authkeeper "github.com/cosmos/cosmos-sdk/x/auth/keeper"
	authtypes "github.com/cosmos/cosmos-sdk/x/auth/types"
	"github.com/cosmos/cosmos-sdk/x/bank"
	bankkeeper "github.com/cosmos/cosmos-sdk/x/bank/keeper"
	banktypes "github.com/cosmos/cosmos-sdk/x/bank/types"
	distributiontypes "github.com/cosmos/cosmos-sdk/x/distribution/types"
	govtypes "github.com/cosmos/cosmos-sdk/x/gov/types"

	ophost "github.com/initia-labs/OPinit/x/ophost"
	ophostkeeper "github.com/initia-labs/OPinit/x/ophost/keeper"
	ophosttypes "github.com/initia-labs/OPinit/x/ophost/types"
	ophosthook "github.com/initia-labs/OPinit/x/ophost/types/hook"
)

// L1 is a chain with auth, bank and ophost, the real ibc-perm bridge hook over store-backed
// channel/perm keepers and a community pool that really moves the registration fee.
type L1 struct {
	Ctx       sdk.Context
	StoreKeys []storetypes.StoreKey
	Enc       EncodingConfig
	AK        authkeeper.AccountKeeper
	BK        bankkeeper.BaseKeeper
	HK        *ophostkeeper.Keeper
	Q         ophostkeeper.Querier
	Router    *baseapp.MsgServiceRouter
	Perm      *PermStore
	Authority string
	PoolAddr  sdk.AccAddress
	keys      map[string]*storetypes.KVStoreKey
}

var L1Basics = module.NewBasicManager(auth.AppModuleBasic{}, bank.AppModuleBasic{}, ophost.AppModuleBasic{})

const permStoreName = "verifperm"

var L1GenesisTime = time.Date(2020, time.April, 22, 12, 0, 0, 300_000_000, time.UTC) // non-zero sub-second part

type L1Options struct {
	// Accounts: name -> initial coins; every account is created in the initial state so that auth
	// account numbers do not depend on exploration order.
	Accounts map[string]sdk.Coins
	// RegistrationFee for CreateBridge (nil = none).
	RegistrationFee sdk.Coins
	// Prefix for store key names (two-chain worlds mount both chains in one multistore).
	NoHook bool
	// Blank leaves every store empty (no params, no accounts): the target of a genesis import.
	Blank bool
}

// pool implements ophosttypes.CommunityPoolKeeper by really moving the coins.
type pool struct{ bk bankkeeper.BaseKeeper }

func (p pool) FundCommunityPool(ctx context.Context, amount sdk.Coins, sender sdk.AccAddress) error {
	if amount.Empty() {
		return nil
	}
	return p.bk.SendCoinsFromAccountToModule(ctx, sender, distributiontypes.ModuleName, amount)
}

func NewL1(opt L1Options) *L1 {
	db := dbm.NewMemDB()
	keys := storetypes.NewKVStoreKeys(authtypes.StoreKey, banktypes.StoreKey, ophosttypes.StoreKey, permStoreName)
	ms := store.NewCommitMultiStore(db, log.NewNopLogger(), metrics.NewNoOpMetrics())
	order := []string{authtypes.StoreKey, banktypes.StoreKey, ophosttypes.StoreKey, permStoreName}
	var sks []storetypes.StoreKey
	for _, n := range order {
		ms.MountStoreWithDB(keys[n], storetypes.StoreTypeIAVL, db)
		sks = append(sks, keys[n])
	}
	if err := ms.LoadLatestVersion(); err != nil {
		panic(err)
	}
	ctx := sdk.NewContext(ms, tmproto.Header{Height: 100, Time: L1GenesisTime, ChainID: "l1-verif"}, false, log.NewNopLogger())

	w := &L1{Ctx: ctx, StoreKeys: sks, Enc: MakeEncodingConfig(L1Basics), keys: keys}
	w.wire()
	if !opt.Blank {
		if err := w.AK.Params.Set(ctx, authtypes.DefaultParams()); err != nil {
			panic(err)
		}
		if err := w.BK.SetParams(ctx, banktypes.DefaultParams()); err != nil {
			panic(err)
		}
		params := ophosttypes.DefaultParams()
		if opt.RegistrationFee != nil {
			params.RegistrationFee = opt.RegistrationFee
		}
		if err := w.HK.SetParams(ctx, params); err != nil {
			panic(err)
		}
		// make sure the module accounts that can receive funds exist up front
		w.AK.GetModuleAccount(ctx, distributiontypes.ModuleName)
		w.AK.GetModuleAccount(ctx, authtypes.Minter)
	}
	for _, name := range SortedKeys(opt.Accounts) {
		w.CreateAccount(ctx, name, opt.Accounts[name])
	}
	return w
}

// wire constructs the keepers, servers and router over the world's store keys. It writes nothing.
func (w *L1) wire() {
	keys, enc, ctx := w.keys, w.Enc, w.Ctx
	maccPerms := map[string][]string{
		authtypes.FeeCollectorName:   nil,
		distributiontypes.ModuleName: nil,
		ophosttypes.ModuleName:       {authtypes.Burner, authtypes.Minter},
		authtypes.Minter:             {authtypes.Minter, authtypes.Burner},
	}
	authority := authtypes.NewModuleAddress(govtypes.ModuleName).String()
	ak := authkeeper.NewAccountKeeper(enc.Marshaler, runtime.NewKVStoreService(keys[authtypes.StoreKey]),
		authtypes.ProtoBaseAccount, maccPerms,
		authcodec.NewBech32Codec(sdk.GetConfig().GetBech32AccountAddrPrefix()),
		sdk.GetConfig().GetBech32AccountAddrPrefix(), authority)
	blocked := map[string]bool{}
	for acc := range maccPerms {
		blocked[authtypes.NewModuleAddress(acc).String()] = true
	}
	bk := bankkeeper.NewBaseKeeper(enc.Marshaler, runtime.NewKVStoreService(keys[banktypes.StoreKey]), ak, blocked, authority, ctx.Logger())
	router := baseapp.NewMsgServiceRouter()
	router.SetInterfaceRegistry(enc.InterfaceRegistry)
	banktypes.RegisterMsgServer(router, bankkeeper.NewMsgServerImpl(bk))

	perm := &PermStore{key: keys[permStoreName]}
	var hook ophosttypes.BridgeHook = ophosthook.NewBridgeHook(perm, perm, ak.AddressCodec())
	hk := ophostkeeper.NewKeeper(enc.Marshaler, runtime.NewKVStoreService(keys[ophosttypes.StoreKey]), ak, bk, pool{bk}, hook, authority)
	ophosttypes.RegisterMsgServer(router, ophostkeeper.NewMsgServerImpl(*hk))

	w.AK, w.BK, w.HK, w.Q, w.Router, w.Perm = ak, bk, hk, ophostkeeper.NewQuerier(*hk), router, perm
	w.Authority, w.PoolAddr = authority, authtypes.NewModuleAddress(distributiontypes.ModuleName)
}

// Respawn returns a node that has just been started on this world's stores: newly constructed
// keepers, servers and router (nothing any earlier execution left in process memory), over the
// same store keys, so that it runs on every context of the original world. It writes nothing.
func (w *L1) Respawn() *L1 {
	n := &L1{Ctx: w.Ctx, StoreKeys: w.StoreKeys, Enc: w.Enc, keys: w.keys}
	n.wire()
	return n
}

// CreateAccount registers the account and mints it coins (setup only).
func (w *L1) CreateAccount(ctx sdk.Context, name string, coins sdk.Coins) {
	addr := Addr(name)
	if !w.AK.HasAccount(ctx, addr) {
		w.AK.SetAccount(ctx, w.AK.NewAccountWithAddress(ctx, addr))
	}
	if !coins.Empty() {
		if err := w.BK.MintCoins(ctx, authtypes.Minter, coins); err != nil {
			panic(err)
		}
		if err := w.BK.SendCoinsFromModuleToAccount(ctx, authtypes.Minter, addr, coins); err != nil {
			panic(err)
		}
	}
}

func (w *L1) Deliver(ctx sdk.Context, msg sdk.Msg) DeliverResult {
	return Deliver(ctx, w.Router, w.Enc.Marshaler, msg)
}

func (w *L1) Digest(ctx sdk.Context, extra ...[]byte) [32]byte {
	return Digest(ctx, w.StoreKeys, extra...)
}

// DefaultBridgeConfig with the given roles.
func BridgeConfig(proposer, challenger string, period time.Duration) ophosttypes.BridgeConfig {
	return ophosttypes.BridgeConfig{
		Challenger:            Addr(challenger).String(),
		Proposer:              Addr(proposer).String(),
		BatchInfo:             ophosttypes.BatchInfo{Submitter: Addr("submitter").String(), ChainType: ophosttypes.BatchInfo_CHAIN_TYPE_INITIA},
		SubmissionInterval:    time.Second * 10,
		FinalizationPeriod:    period,
		SubmissionStartHeight: 1,
		Metadata:              nil,
	}
}

func Coin(denom string, amt int64) sdk.Coin { return sdk.NewCoin(denom, math.NewInt(amt)) }

// ---------------------------------------------------------------------------------------------
// PermStore: store-backed ibc channel + ibcperm keepers (branch and roll back with the tx).

type PermStore struct{ key storetypes.StoreKey }

func chanKey(prefix byte, port, ch string) []byte {
	b := []byte{prefix}
	var l [2]byte
	binary.BigEndian.PutUint16(l[:], uint16(len(port)))
	b = append(b, l[:]...)
	b = append(b, port...)
	b = append(b, ch...)
	return b
}

// SetChannelSeq sets (or with seq==0 deletes) the next-sequence-send of a channel.
func (p *PermStore) SetChannelSeq(ctx sdk.Context, port, ch string, seq uint64) {
	st := ctx.KVStore(p.key)
	if seq == 0 {
		st.Delete(chanKey(1, port, ch))
		return
	}
	var b [8]byte
	binary.BigEndian.PutUint64(b[:], seq)
	st.Set(chanKey(1, port, ch), b[:])
}

func (p *PermStore) GetNextSequenceSend(ctx sdk.Context, port, ch string) (uint64, bool) {
	bz := ctx.KVStore(p.key).Get(chanKey(1, port, ch))
	if bz == nil {
		return 0, false
	}
	return binary.BigEndian.Uint64(bz), true
}

func (p *PermStore) Admin(ctx context.Context, port, ch string) sdk.AccAddress {
	return sdk.UnwrapSDKContext(ctx).KVStore(p.key).Get(chanKey(2, port, ch))
}

func (p *PermStore) IsTaken(ctx context.Context, port, ch string) (bool, error) {
	return p.Admin(ctx, port, ch) != nil, nil
}

func (p *PermStore) SetAdmin(ctx context.Context, port, ch string, admin sdk.AccAddress) error {
	sdk.UnwrapSDKContext(ctx).KVStore(p.key).Set(chanKey(2, port, ch), admin)
	return nil
}

func (p *PermStore) HasAdminPermission(ctx context.Context, port, ch string, admin sdk.AccAddress) (bool, error) {
	a := p.Admin(ctx, port, ch)
	return a != nil && a.Equals(admin), nil
}
