package world

import (
	"context"
	"errors"
	"fmt"

	"cosmossdk.io/core/address"
	sdk "github.com/cosmos/cosmos-sdk/types"
	authante "github.com/cosmos/cosmos-sdk/x/auth/ante"
	authtypes "github.com/cosmos/cosmos-sdk/x/auth/types"
	banktypes "github.com/cosmos/cosmos-sdk/x/bank/types"

	opchildtypes "github.com/initia-labs/OPinit/x/opchild/types"
)

// Faults is the Mode-C choice-point controller: every call made through one of the proxies is a
// numbered point; the plan says at which points to deviate from the default answer.
type Faults struct {
	Plan  map[int]string // call index -> "error" | "panic"
	Calls []string       // sites reached, in order
	Hit   []string       // faults actually injected
}

var ErrInjected = errors.New("verif: injected keeper failure")

func (f *Faults) Reset(plan map[int]string) {
	f.Plan = plan
	f.Calls = f.Calls[:0]
	f.Hit = nil
}

// point registers a call; returns true if an error must be returned (panics for "panic").
func (f *Faults) point(site string, canErr bool) bool {
	i := len(f.Calls)
	f.Calls = append(f.Calls, site)
	kind, ok := f.Plan[i]
	if !ok {
		return false
	}
	if kind == "panic" {
		f.Hit = append(f.Hit, fmt.Sprintf("%d:%s:panic", i, site))
		panic(fmt.Sprintf("verif: injected panic at %s", site))
	}
	if canErr {
		f.Hit = append(f.Hit, fmt.Sprintf("%d:%s:error", i, site))
		return true
	}
	return false
}

// FaultBank wraps the BankKeeper handed to opchild.
type FaultBank struct {
	opchildtypes.BankKeeper
	F *Faults
}

func (b FaultBank) SendCoins(ctx context.Context, from, to sdk.AccAddress, amt sdk.Coins) error {
	if b.F.point("opchild.bank.SendCoins", true) {
		return ErrInjected
	}
	return b.BankKeeper.SendCoins(ctx, from, to, amt)
}
func (b FaultBank) SendCoinsFromModuleToAccount(ctx context.Context, m string, to sdk.AccAddress, amt sdk.Coins) error {
	if b.F.point("opchild.bank.SendCoinsFromModuleToAccount", true) {
		return ErrInjected
	}
	return b.BankKeeper.SendCoinsFromModuleToAccount(ctx, m, to, amt)
}
func (b FaultBank) SendCoinsFromAccountToModule(ctx context.Context, from sdk.AccAddress, m string, amt sdk.Coins) error {
	if b.F.point("opchild.bank.SendCoinsFromAccountToModule", true) {
		return ErrInjected
	}
	return b.BankKeeper.SendCoinsFromAccountToModule(ctx, from, m, amt)
}
func (b FaultBank) MintCoins(ctx context.Context, m string, amt sdk.Coins) error {
	if b.F.point("opchild.bank.MintCoins", true) {
		return ErrInjected
	}
	return b.BankKeeper.MintCoins(ctx, m, amt)
}
func (b FaultBank) BurnCoins(ctx context.Context, m string, amt sdk.Coins) error {
	if b.F.point("opchild.bank.BurnCoins", true) {
		return ErrInjected
	}
	return b.BankKeeper.BurnCoins(ctx, m, amt)
}
func (b FaultBank) HasDenomMetaData(ctx context.Context, denom string) bool {
	b.F.point("opchild.bank.HasDenomMetaData", false)
	return b.BankKeeper.HasDenomMetaData(ctx, denom)
}
func (b FaultBank) SetDenomMetaData(ctx context.Context, md banktypes.Metadata) {
	b.F.point("opchild.bank.SetDenomMetaData", false)
	b.BankKeeper.SetDenomMetaData(ctx, md)
}

// FaultAcc wraps the AccountKeeper handed to opchild.
type FaultAcc struct {
	opchildtypes.AccountKeeper
	F *Faults
}

func (a FaultAcc) HasAccount(ctx context.Context, addr sdk.AccAddress) bool {
	a.F.point("opchild.acc.HasAccount", false)
	return a.AccountKeeper.HasAccount(ctx, addr)
}
func (a FaultAcc) NewAccountWithAddress(ctx context.Context, addr sdk.AccAddress) sdk.AccountI {
	a.F.point("opchild.acc.NewAccountWithAddress", false)
	return a.AccountKeeper.NewAccountWithAddress(ctx, addr)
}
func (a FaultAcc) SetAccount(ctx context.Context, acc sdk.AccountI) {
	a.F.point("opchild.acc.SetAccount", false)
	a.AccountKeeper.SetAccount(ctx, acc)
}
func (a FaultAcc) GetAccount(ctx context.Context, addr sdk.AccAddress) sdk.AccountI {
	a.F.point("opchild.acc.GetAccount", false)
	return a.AccountKeeper.GetAccount(ctx, addr)
}

// FaultAnteAcc wraps the account keeper of the hook's signature-verification decorator chain.
type FaultAnteAcc struct {
	Inner authante.AccountKeeper
	F     *Faults
}

func (a FaultAnteAcc) GetParams(ctx context.Context) authtypes.Params {
	a.F.point("ante.acc.GetParams", false)
	return a.Inner.GetParams(ctx)
}
func (a FaultAnteAcc) GetAccount(ctx context.Context, addr sdk.AccAddress) sdk.AccountI {
	a.F.point("ante.acc.GetAccount", false)
	return a.Inner.GetAccount(ctx, addr)
}
func (a FaultAnteAcc) SetAccount(ctx context.Context, acc sdk.AccountI) {
	a.F.point("ante.acc.SetAccount", false)
	a.Inner.SetAccount(ctx, acc)
}
func (a FaultAnteAcc) GetModuleAddress(m string) sdk.AccAddress { return a.Inner.GetModuleAddress(m) }
func (a FaultAnteAcc) AddressCodec() address.Codec              { return a.Inner.AddressCodec() }
