package world

import (
	"fmt"

	storetypes "cosmossdk.io/store/types"
	"github.com/cosmos/cosmos-sdk/baseapp"
	"github.com/cosmos/cosmos-sdk/codec"
	sdk "github.com/cosmos/cosmos-sdk/types"
)

// traceMeter records the cumulative consumption after every charge.
type traceMeter struct {
	storetypes.GasMeter
	marks []uint64
}

func (t *traceMeter) ConsumeGas(amount storetypes.Gas, descriptor string) {
	t.GasMeter.ConsumeGas(amount, descriptor)
	t.marks = append(t.marks, t.GasMeter.GasConsumed())
}

// GasTrace delivers msg on a throw-away branch under an unlimited recording meter and returns the
// cumulative gas after every single charge (the points at which a gas limit can be crossed).
func GasTrace(ctx sdk.Context, router *baseapp.MsgServiceRouter, cdc codec.Codec, msg sdk.Msg) []uint64 {
	cctx, _ := ctx.CacheContext()
	tm := &traceMeter{GasMeter: storetypes.NewInfiniteGasMeter()}
	Deliver(cctx.WithGasMeter(tm), router, cdc, msg)
	return tm.marks
}

// DeliverGas is Deliver under a transaction gas limit, with what baseapp.runTx reports: an out-of-gas
// panic becomes ErrOutOfGas carrying the location, and GasUsed is the meter's consumption (which may
// exceed the limit by the charge that crossed it) — both are part of the consensus-critical tx result.
func DeliverGas(ctx sdk.Context, router *baseapp.MsgServiceRouter, cdc codec.Codec, msg sdk.Msg, limit uint64) DeliverResult {
	cctx, write := ctx.CacheContext()
	cctx = cctx.WithGasMeter(storetypes.NewGasMeter(limit))
	res := Deliver(cctx, router, cdc, msg)
	if res.Panicked {
		res.Err = fmt.Errorf("out of gas / panic under gas limit %d: %s", limit, firstLine(res.PanicVal))
	}
	if res.Err == nil {
		write()
	}
	return res
}

func firstLine(s string) string {
	for i := 0; i < len(s); i++ {
		if s[i] == '\n' {
			return s[:i]
		}
	}
	return s
}

func (w *L1) GasTrace(ctx sdk.Context, msg sdk.Msg) []uint64 {
	return GasTrace(ctx, w.Router, w.Enc.Marshaler, msg)
}
func (w *L1) DeliverGas(ctx sdk.Context, msg sdk.Msg, limit uint64) DeliverResult {
	return DeliverGas(ctx, w.Router, w.Enc.Marshaler, msg, limit)
}
func (w *L2) GasTrace(ctx sdk.Context, msg sdk.Msg) []uint64 {
	return GasTrace(ctx, w.Router, w.Enc.Marshaler, msg)
}
func (w *L2) DeliverGas(ctx sdk.Context, msg sdk.Msg, limit uint64) DeliverResult {
	return DeliverGas(ctx, w.Router, w.Enc.Marshaler, msg, limit)
}

// RawChange is one key whose value differs between two views of the same stores.
type RawChange struct {
	Store         string
	Key, Was, Now []byte // nil = absent
}

// RawDiff lists every key of the given stores whose value differs between a and b.
func RawDiff(a, b sdk.Context, keys []storetypes.StoreKey) []RawChange {
	var out []RawChange
	for _, k := range keys {
		sa, sb := a.MultiStore().GetKVStore(k), b.MultiStore().GetKVStore(k)
		it := sa.Iterator(nil, nil)
		for ; it.Valid(); it.Next() {
			nv := sb.Get(it.Key())
			if nv == nil || string(nv) != string(it.Value()) {
				out = append(out, RawChange{k.Name(), append([]byte{}, it.Key()...), append([]byte{}, it.Value()...), nv})
			}
		}
		it.Close()
		it = sb.Iterator(nil, nil)
		for ; it.Valid(); it.Next() {
			if !sa.Has(it.Key()) {
				out = append(out, RawChange{k.Name(), append([]byte{}, it.Key()...), nil, append([]byte{}, it.Value()...)})
			}
		}
		it.Close()
	}
	return out
}
