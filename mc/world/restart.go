package world

import (
	"fmt"

	storetypes "cosmossdk.io/store/types"
	sdk "github.com/cosmos/cosmos-sdk/types"

	opchildtypes "github.com/initia-labs/OPinit/x/opchild/types"
	ophosttypes "github.com/initia-labs/OPinit/x/ophost/types"
)

func wipe(ctx sdk.Context, key storetypes.StoreKey) {
	st := ctx.KVStore(key)
	var ks [][]byte
	it := st.Iterator(nil, nil)
	for ; it.Valid(); it.Next() {
		ks = append(ks, append([]byte{}, it.Key()...))
	}
	it.Close()
	for _, k := range ks {
		st.Delete(k)
	}
}

// RestartViaGenesis performs, in place on ctx (normally a branch), what a chain restart from an
// exported genesis does to the ophost module: export, JSON round trip, ValidateGenesis, import
// into the emptied module store. auth and bank stay as they are (their own import/export is the
// SDK's). A panic or a validation failure is returned as an error.
func (w *L1) RestartViaGenesis(ctx sdk.Context) (err error) {
	defer func() {
		if r := recover(); r != nil {
			err = fmt.Errorf("panic: %v", r)
		}
	}()
	gs := w.HK.ExportGenesis(ctx)
	bz, err := w.Enc.Marshaler.MarshalJSON(gs)
	if err != nil {
		return err
	}
	var g2 ophosttypes.GenesisState
	if err := w.Enc.Marshaler.UnmarshalJSON(bz, &g2); err != nil {
		return err
	}
	if err := ophosttypes.ValidateGenesis(&g2, w.AK.AddressCodec()); err != nil {
		return fmt.Errorf("ValidateGenesis: %w", err)
	}
	wipe(ctx, w.StoreKeys[2])
	w.HK.InitGenesis(ctx, &g2)
	return nil
}

// RestartViaGenesis for the opchild module (see L1.RestartViaGenesis). What the module does not
// export (historical infos, the recorded L1 validator set, process-local plans) is lost, as in a
// real restart.
func (w *L2) RestartViaGenesis(ctx sdk.Context) (err error) {
	defer func() {
		if r := recover(); r != nil {
			err = fmt.Errorf("panic: %v", r)
		}
	}()
	gs := w.K.ExportGenesis(ctx)
	bz, err := w.Enc.Marshaler.MarshalJSON(gs)
	if err != nil {
		return err
	}
	var g2 opchildtypes.GenesisState
	if err := w.Enc.Marshaler.UnmarshalJSON(bz, &g2); err != nil {
		return err
	}
	if err := opchildtypes.ValidateGenesis(&g2, w.AK.AddressCodec()); err != nil {
		return fmt.Errorf("ValidateGenesis: %w", err)
	}
	wipe(ctx, w.StoreKeys[2])
	w.K.InitGenesis(ctx, &g2)
	return nil
}
