// Package world builds real OPinit keepers (the way the repository's own common_test.go files do)
// on an in-memory multistore, and offers delivery with baseapp.runTx semantics, branching and a
// full-store digest.
package world

import (
	"bytes"
	"crypto/sha256"
	"encoding/binary"
	"fmt"
	"runtime/debug"
	"sort"
	"time"

	storetypes "cosmossdk.io/store/types"
	signingmod "cosmossdk.io/x/tx/signing"

	"github.com/cosmos/cosmos-sdk/baseapp"
	"github.com/cosmos/cosmos-sdk/client"
	"github.com/cosmos/cosmos-sdk/codec"
	codecaddress "github.com/cosmos/cosmos-sdk/codec/address"
	codectypes "github.com/cosmos/cosmos-sdk/codec/types"
	"github.com/cosmos/cosmos-sdk/crypto/keys/ed25519"
	"github.com/cosmos/cosmos-sdk/crypto/keys/secp256k1"
	cryptotypes "github.com/cosmos/cosmos-sdk/crypto/types"
	"github.com/cosmos/cosmos-sdk/std"
	sdk "github.com/cosmos/cosmos-sdk/types"
	"github.com/cosmos/cosmos-sdk/types/module"
	authtx "github.com/cosmos/cosmos-sdk/x/auth/tx"
	"github.com/cosmos/gogoproto/proto"
)

type EncodingConfig struct {
	InterfaceRegistry codectypes.InterfaceRegistry
	Marshaler         codec.Codec
	TxConfig          client.TxConfig
	Amino             *codec.LegacyAmino
}

func MakeEncodingConfig(basics module.BasicManager) EncodingConfig {
	interfaceRegistry, err := codectypes.NewInterfaceRegistryWithOptions(codectypes.InterfaceRegistryOptions{
		ProtoFiles: proto.HybridResolver,
		SigningOptions: signingmod.Options{
			AddressCodec:          codecaddress.NewBech32Codec(sdk.GetConfig().GetBech32AccountAddrPrefix()),
			ValidatorAddressCodec: codecaddress.NewBech32Codec(sdk.GetConfig().GetBech32ValidatorAddrPrefix()),
		},
	})
	if err != nil {
		panic(err)
	}
	appCodec := codec.NewProtoCodec(interfaceRegistry)
	legacyAmino := codec.NewLegacyAmino()
	txConfig := authtx.NewTxConfig(appCodec, authtx.DefaultSignModes)

	std.RegisterInterfaces(interfaceRegistry)
	std.RegisterLegacyAminoCodec(legacyAmino)
	basics.RegisterLegacyAminoCodec(legacyAmino)
	basics.RegisterInterfaces(interfaceRegistry)

	return EncodingConfig{interfaceRegistry, appCodec, txConfig, legacyAmino}
}

// Deterministic keys: never GenPrivKey().
func SecpKey(name string) cryptotypes.PrivKey {
	if name == "o3" {
		// operator o3's label is chosen so that the operator addresses sort o2 < o1 < o3: the genesis
		// operator o1 sits in the middle, and code that walks validators in store order (and might stop
		// early) meets fresh operators both before and after it
		name = "o3/sorts-last"
	}
	return secp256k1.GenPrivKeyFromSecret([]byte("verif/" + name))
}
func EdKey(name string) *ed25519.PrivKey {
	return ed25519.GenPrivKeyFromSecret([]byte("verif/" + name))
}
func Addr(name string) sdk.AccAddress { return sdk.AccAddress(SecpKey(name).PubKey().Address()) }

// Result of delivering one message with runTx semantics.
type DeliverResult struct {
	Err      error
	Panicked bool
	OutOfGas bool // the panic was a gas meter running out
	PanicVal string
	Events   sdk.Events
	Resp     proto.Message // first msg response, nil on error
	GasUsed  uint64
}

func (r DeliverResult) OK() bool { return r.Err == nil }

// Deliver routes msg through the real MsgServiceRouter on a cache-branch of ctx and writes the
// branch back iff the handler returned nil (what baseapp.runTx does with a one-message tx).
// A panic is recovered and treated as a failed tx.
func Deliver(ctx sdk.Context, router *baseapp.MsgServiceRouter, cdc codec.Codec, msg sdk.Msg) (res DeliverResult) {
	cctx, write := ctx.CacheContext()
	cctx = cctx.WithEventManager(sdk.NewEventManager())
	gas0 := cctx.GasMeter().GasConsumed() // the meter is shared with the parent context: report the delta
	func() {
		defer func() {
			if r := recover(); r != nil {
				res.Panicked = true
				res.PanicVal = fmt.Sprint(r)
				if _, isOOG := r.(storetypes.ErrorOutOfGas); !isOOG {
					res.PanicVal += "\n" + string(debug.Stack())
				} else {
					res.OutOfGas = true
				}
				res.Err = fmt.Errorf("panic: %v", r)
			}
		}()
		h := router.Handler(msg)
		if h == nil {
			res.Err = fmt.Errorf("unroutable message %s", sdk.MsgTypeURL(msg))
			return
		}
		r, err := h(cctx, msg)
		if err != nil {
			res.Err = err
			return
		}
		res.Events = r.GetEvents()
		if len(r.MsgResponses) > 0 {
			var m proto.Message
			if err := cdc.UnpackAny(r.MsgResponses[0], &m); err == nil {
				res.Resp = m
			}
		}
	}()
	res.GasUsed = cctx.GasMeter().GasConsumed() - gas0
	if res.Err == nil {
		write()
	}
	return res
}

// Digest hashes the full content of every listed store plus height and time.
func Digest(ctx sdk.Context, keys []storetypes.StoreKey, extra ...[]byte) [32]byte {
	h := sha256.New()
	var lb [8]byte
	put := func(b []byte) {
		binary.BigEndian.PutUint64(lb[:], uint64(len(b)))
		h.Write(lb[:])
		h.Write(b)
	}
	for _, k := range keys {
		put([]byte(k.Name()))
		it := ctx.MultiStore().GetKVStore(k).Iterator(nil, nil)
		for ; it.Valid(); it.Next() {
			put(it.Key())
			put(it.Value())
		}
		it.Close()
		put([]byte{0xff})
	}
	binary.BigEndian.PutUint64(lb[:], uint64(ctx.BlockHeight()))
	h.Write(lb[:])
	binary.BigEndian.PutUint64(lb[:], uint64(ctx.BlockTime().UnixNano()))
	h.Write(lb[:])
	for _, e := range extra {
		put(e)
	}
	var out [32]byte
	copy(out[:], h.Sum(nil))
	return out
}

// DumpStores returns the raw content of the listed stores (for byte-wise comparisons).
func DumpStores(ctx sdk.Context, keys []storetypes.StoreKey) map[string][][2][]byte {
	out := map[string][][2][]byte{}
	for _, k := range keys {
		it := ctx.MultiStore().GetKVStore(k).Iterator(nil, nil)
		var kv [][2][]byte
		for ; it.Valid(); it.Next() {
			kv = append(kv, [2][]byte{append([]byte{}, it.Key()...), append([]byte{}, it.Value()...)})
		}
		it.Close()
		out[k.Name()] = kv
	}
	return out
}

// Advance returns ctx moved forward by d and one block higher.
func Advance(ctx sdk.Context, d time.Duration) sdk.Context {
	return ctx.WithBlockHeight(ctx.BlockHeight() + 1).WithBlockTime(ctx.BlockTime().Add(d))
}

func SortedKeys[V any](m map[string]V) []string {
	ks := make([]string, 0, len(m))
	for k := range m {
		ks = append(ks, k)
	}
	sort.Strings(ks)
	return ks
}

// EventsOfType filters events.
func EventsOfType(evs sdk.Events, typ string) []sdk.Event {
	var out []sdk.Event
	for _, e := range evs {
		if e.Type == typ {
			out = append(out, e)
		}
	}
	return out
}

func Attr(e sdk.Event, key string) (string, bool) {
	for _, a := range e.Attributes {
		if a.Key == key {
			return a.Value, true
		}
	}
	return "", false
}

// CopyState makes the stores of dst (a branch of another, independently constructed world) hold
// exactly the raw key/value content of src.
func CopyState(src sdk.Context, srcKeys []storetypes.StoreKey, dst sdk.Context, dstKeys []storetypes.StoreKey) {
	for i, sk := range srcKeys {
		d := dst.MultiStore().GetKVStore(dstKeys[i])
		var del [][]byte
		it := d.Iterator(nil, nil)
		for ; it.Valid(); it.Next() {
			del = append(del, append([]byte{}, it.Key()...))
		}
		it.Close()
		for _, k := range del {
			d.Delete(k)
		}
		s := src.MultiStore().GetKVStore(sk)
		it = s.Iterator(nil, nil)
		for ; it.Valid(); it.Next() {
			d.Set(append([]byte{}, it.Key()...), append([]byte{}, it.Value()...))
		}
		it.Close()
	}
}

// ExecutorsWithSpare lists the acting executor first, followed by a second listed executor whose address is
// smaller: the list is not sorted, and the executor that does the work is not its last entry.
func ExecutorsWithSpare(acting string) []string {
	for _, n := range []string{"e2", "e3", "e4", "e5", "e6", "e7", "e8", "spare-executor"} {
		if bytes.Compare(Addr(n), Addr(acting)) < 0 {
			return []string{acting, n}
		}
	}
	return []string{acting, "e2"}
}
