package props

import (
	"bytes"
	"encoding/binary"
	"encoding/hex"
	"fmt"
	"math"
	"strings"
	"sync"
	"sync/atomic"
	"time"

	sdkmath "cosmossdk.io/math"
	storetypes "cosmossdk.io/store/types"
	abci "github.com/cometbft/cometbft/abci/types"
	cmttypes "github.com/cometbft/cometbft/types"

	sdk "github.com/cosmos/cosmos-sdk/types"
	"github.com/cosmos/gogoproto/proto"

	opchild "github.com/initia-labs/OPinit/x/opchild"
	opchildtypes "github.com/initia-labs/OPinit/x/opchild/types"
	ophosttypes "github.com/initia-labs/OPinit/x/ophost/types"

	"verifmc/engine"
	"verifmc/world"
)

// C16 — exporting and re-importing genesis preserves all bridge state and behaviour.

func showErr(err error) string {
	if err == nil {
		return "ok"
	}
	s := err.Error()
	if i := strings.Index(s, " ["); i > 0 { // strip file:line suffixes of registered errors
		s = s[:i]
	}
	return "err:" + s
}

func showEvents(evs sdk.Events) string {
	var b strings.Builder
	for _, e := range evs {
		b.WriteString(e.Type)
		b.WriteString("{")
		for _, a := range e.Attributes {
			b.WriteString(a.Key + "=" + a.Value + ",")
		}
		b.WriteString("}")
	}
	return b.String()
}

func showRes(name string, r world.DeliverResult) string {
	resp := ""
	if r.Resp != nil {
		resp = proto.CompactTextString(r.Resp)
	}
	return fmt.Sprintf("%s -> %s resp=%s events=%s", name, showErr(r.Err), resp, showEvents(r.Events))
}

func showQ(name string, m proto.Message, err error) string {
	if err != nil {
		return name + " -> " + showErr(err)
	}
	return name + " -> " + proto.CompactTextString(m)
}

func firstDiff(a, b []string) string {
	for i := range a {
		if i >= len(b) || a[i] != b[i] {
			o := "<missing>"
			if i < len(b) {
				o = b[i]
			}
			return fmt.Sprintf("step %d:\n  original: %.400s\n  clone:    %.400s", i, a[i], o)
		}
	}
	if len(b) > len(a) {
		return "clone transcript is longer"
	}
	return ""
}

// ------------------------------------------------------------------------------------------ L1

type c16L1State struct {
	ctx   sdk.Context
	w     *world.L1
	nbr   int
	depth int // used by C18's gas-limit sweep only
}

type c16L1Sys struct {
	dev    bool // the root also offers the field-deviation family (one unusual-but-legal field per message)
	rich   bool // root: two bridges, each with deposits, a final output, a paid withdrawal, a batch-info change
	empty  bool // root: a chain on which no bridge has been created yet
	tree   *wtree
	tree2  *wtree
	blank  map[*world.L1]*world.L1
	mu     sync.Mutex
	clones atomic.Int64
	probes atomic.Int64
}

func newC16L1Sys() *c16L1Sys {
	bob := world.Addr("bob").String()
	ws := []wd{{Bridge: 1, Seq: 1, From: "l2user", To: bob, Denom: "uxx", Amount: 1}, {Bridge: 1, Seq: 2, From: "l2user", To: bob, Denom: "uxx", Amount: 2}}
	ws2 := []wd{{Bridge: 2, Seq: 1, From: "l2user", To: bob, Denom: "uyy", Amount: 1}, {Bridge: 2, Seq: 2, From: "l2user", To: bob, Denom: "uyy", Amount: 1}}
	return &c16L1Sys{tree: mkTree("c16", ws, 0), tree2: mkTree("c16-b2", ws2, 0), blank: map[*world.L1]*world.L1{}}
}

func (y *c16L1Sys) Root() *c16L1State {
	w := world.NewL1(world.L1Options{Accounts: map[string]sdk.Coins{
		"proposer": nil, "challenger": nil, "stranger": nil, "creator": sdk.NewCoins(world.Coin("uxx", 10)), "submitter": nil, "proposer2": nil, "challenger2": nil, "bob": nil,
		"alice": sdk.NewCoins(world.Coin("uxx", 100), world.Coin("uyy", 100)),
	}})
	if y.empty {
		return &c16L1State{ctx: w.Ctx, w: w, nbr: 0}
	}
	if r := w.Deliver(w.Ctx, ophosttypes.NewMsgCreateBridge(world.Addr("creator").String(), world.BridgeConfig("proposer", "challenger", 10*time.Second))); !r.OK() {
		panic(r.Err)
	}
	if !y.rich {
		return &c16L1State{ctx: w.Ctx, w: w, nbr: 1}
	}
	a := func(n string) string { return world.Addr(n).String() }
	ctx := w.Ctx
	must := func(m sdk.Msg) {
		if r := w.Deliver(ctx, m); !r.OK() {
			panic(fmt.Sprintf("c16 rich root: %T: %v", m, r.Err))
		}
	}
	must(ophosttypes.NewMsgCreateBridge(a("creator"), world.BridgeConfig("proposer", "challenger", 10*time.Second)))
	must(ophosttypes.NewMsgInitiateTokenDeposit(a("alice"), 1, "l2addr", world.Coin("uxx", 5), nil))
	must(ophosttypes.NewMsgInitiateTokenDeposit(a("alice"), 2, "l2addr", world.Coin("uyy", 5), nil))
	must(ophosttypes.NewMsgInitiateTokenDeposit(a("alice"), 2, "l2addr", world.Coin("uxx", 1), []byte{7}))
	must(ophosttypes.NewMsgProposeOutput(a("proposer"), 1, 1, 11, y.tree.OutputRoot[:]))
	must(ophosttypes.NewMsgProposeOutput(a("proposer"), 2, 1, 0, y.tree2.OutputRoot[:])) // a first output may sit at L2 block 0
	must(ophosttypes.NewMsgUpdateBatchInfo(w.Authority, 2, ophosttypes.BatchInfo{Submitter: a("stranger"), ChainType: ophosttypes.BatchInfo_CHAIN_TYPE_CELESTIA}))
	ctx = world.Advance(ctx, 11*time.Second)
	must(y.tree.claim(1, 1, "bob"))
	must(y.tree2.claim(0, 1, "bob"))
	must(ophosttypes.NewMsgProposeOutput(a("proposer"), 1, 2, 500, y.tree.OutputRoot[:]))
	return &c16L1State{ctx: ctx, w: w, nbr: 2}
}

func (y *c16L1Sys) blankFor(w *world.L1) *world.L1 {
	// one blank import target per world (worlds are per worker)
	y.mu.Lock()
	defer y.mu.Unlock()
	if b, ok := y.blank[w]; ok {
		return b
	}
	b := world.NewL1(world.L1Options{Blank: true})
	y.blank[w] = b
	return b
}

func (y *c16L1Sys) Digest(s *c16L1State) [32]byte { return s.w.Digest(s.ctx) }

type c16L1Op struct {
	name string
	msg  func(s *c16L1State) sdk.Msg
}

func (y *c16L1Sys) ops() []c16L1Op {
	a := func(n string) string { return world.Addr(n).String() }
	cel := ophosttypes.BatchInfo{Submitter: a("submitter"), ChainType: ophosttypes.BatchInfo_CHAIN_TYPE_CELESTIA}
	ini := ophosttypes.BatchInfo{Submitter: a("stranger"), ChainType: ophosttypes.BatchInfo_CHAIN_TYPE_INITIA}
	fee := ophosttypes.Params{RegistrationFee: sdk.NewCoins(world.Coin("uxx", 1))}
	return []c16L1Op{
		{"CreateBridge", func(s *c16L1State) sdk.Msg {
			return ophosttypes.NewMsgCreateBridge(a("creator"), world.BridgeConfig("proposer", "challenger", 10*time.Second))
		}},
		{"Deposit(b1,1uxx)", func(s *c16L1State) sdk.Msg {
			return ophosttypes.NewMsgInitiateTokenDeposit(a("alice"), 1, "l2addr", world.Coin("uxx", 3), nil)
		}},
		{"Deposit(b2,1uyy)", func(s *c16L1State) sdk.Msg {
			return ophosttypes.NewMsgInitiateTokenDeposit(a("alice"), 2, "l2addr", world.Coin("uyy", 1), []byte{1})
		}},
		{"Propose(b1)", func(s *c16L1State) sdk.Msg {
			n, _ := s.w.HK.GetNextOutputIndex(s.ctx, 1)
			return ophosttypes.NewMsgProposeOutput(a("proposer"), 1, n, uint64(s.ctx.BlockHeight())*10+n, y.tree.OutputRoot[:])
		}},
		{"Delete(b1,1)", func(s *c16L1State) sdk.Msg { return ophosttypes.NewMsgDeleteOutput(a("challenger"), 1, 1) }},
		{"Claim(b1,w1)", func(s *c16L1State) sdk.Msg { return y.tree.claim(0, 1, "bob") }},
		{"UpdateBatchInfo(b1,celestia)", func(s *c16L1State) sdk.Msg { return ophosttypes.NewMsgUpdateBatchInfo(s.w.Authority, 1, cel) }},
		{"UpdateBatchInfo(b1,initia)", func(s *c16L1State) sdk.Msg { return ophosttypes.NewMsgUpdateBatchInfo(s.w.Authority, 1, ini) }},
		// a chain type the enum does not declare (the wire format carries any int32)
		{"UpdateBatchInfo(b1,chain type -2147483648)", func(s *c16L1State) sdk.Msg {
			return ophosttypes.NewMsgUpdateBatchInfo(s.w.Authority, 1, ophosttypes.BatchInfo{Submitter: a("submitter"), ChainType: ophosttypes.BatchInfo_ChainType(math.MinInt32)})
		}},
		{"UpdateBatchInfo(b1,chain type 7)", func(s *c16L1State) sdk.Msg {
			return ophosttypes.NewMsgUpdateBatchInfo(s.w.Authority, 1, ophosttypes.BatchInfo{Submitter: a("submitter"), ChainType: ophosttypes.BatchInfo_ChainType(7)})
		}},
		{"UpdateMetadata(b1)", func(s *c16L1State) sdk.Msg {
			return ophosttypes.NewMsgUpdateMetadata(s.w.Authority, 1, []byte(`{"note":"x"}`))
		}},
		{"UpdateOracleConfig(b1,on)", func(s *c16L1State) sdk.Msg { return ophosttypes.NewMsgUpdateOracleConfig(s.w.Authority, 1, true) }},
		{"UpdateProposer(b1,proposer2)", func(s *c16L1State) sdk.Msg { return ophosttypes.NewMsgUpdateProposer(s.w.Authority, 1, a("proposer2")) }},
		{"UpdateChallenger(b1,challenger2)", func(s *c16L1State) sdk.Msg {
			return ophosttypes.NewMsgUpdateChallenger(s.w.Authority, 1, a("challenger2"))
		}},
		{"UpdateParams(fee=1uxx)", func(s *c16L1State) sdk.Msg { return ophosttypes.NewMsgUpdateParams(s.w.Authority, &fee) }},
	}
}

func (y *c16L1Sys) Letters(s *c16L1State) []engine.Letter {
	var ls []engine.Letter
	for _, op := range y.ops() {
		ls = append(ls, engine.Letter{Name: op.name, Data: op})
	}
	if y.dev && s.depth == 0 {
		for _, op := range y.devOps() {
			ls = append(ls, engine.Letter{Name: op.name, Data: op})
		}
	}
	ls = append(ls, engine.Letter{Name: "Advance(11s)", Data: nil})
	return ls
}

// devOps: every message type once per unusual-but-legal value of one of its fields (boundary numbers,
// empty / long / non-ASCII / upper-case strings, undeclared enum values, empty and repeated list entries).
// Whatever the chain accepts must still export, validate, import and behave the same.
func (y *c16L1Sys) devOps() []c16L1Op {
	a := func(n string) string { return world.Addr(n).String() }
	var ops []c16L1Op
	add := func(name string, f func(s *c16L1State) sdk.Msg) { ops = append(ops, c16L1Op{name, f}) }
	long := strings.Repeat("ü/", 100)
	cfgDev := func(name string, mod func(c *ophosttypes.BridgeConfig)) {
		add("CreateBridge["+name+"]", func(s *c16L1State) sdk.Msg {
			c := world.BridgeConfig("proposer", "challenger", 10*time.Second)
			mod(&c)
			return ophosttypes.NewMsgCreateBridge(a("creator"), c)
		})
	}
	cfgDev("metadata=1 byte", func(c *ophosttypes.BridgeConfig) { c.Metadata = []byte{0xff} })
	cfgDev("metadata=5000 bytes", func(c *ophosttypes.BridgeConfig) { c.Metadata = bytes.Repeat([]byte{0x80}, 5000) })
	cfgDev("metadata=empty non-nil", func(c *ophosttypes.BridgeConfig) { c.Metadata = []byte{} })
	cfgDev("proposer=challenger", func(c *ophosttypes.BridgeConfig) { c.Proposer = c.Challenger })
	cfgDev("proposer upper case", func(c *ophosttypes.BridgeConfig) { c.Proposer = strings.ToUpper(c.Proposer) })
	cfgDev("submitter=non-ASCII", func(c *ophosttypes.BridgeConfig) { c.BatchInfo.Submitter = long })
	cfgDev("submitter=empty", func(c *ophosttypes.BridgeConfig) { c.BatchInfo.Submitter = "" })
	cfgDev("chain type=unspecified", func(c *ophosttypes.BridgeConfig) { c.BatchInfo.ChainType = 0 })
	cfgDev("chain type=3", func(c *ophosttypes.BridgeConfig) { c.BatchInfo.ChainType = 3 })
	cfgDev("period=1ns", func(c *ophosttypes.BridgeConfig) { c.FinalizationPeriod = 1 })
	cfgDev("period=max", func(c *ophosttypes.BridgeConfig) { c.FinalizationPeriod = math.MaxInt64 })
	cfgDev("interval=1ns", func(c *ophosttypes.BridgeConfig) { c.SubmissionInterval = 1 })
	cfgDev("interval=max", func(c *ophosttypes.BridgeConfig) { c.SubmissionInterval = math.MaxInt64 })
	cfgDev("interval=0", func(c *ophosttypes.BridgeConfig) { c.SubmissionInterval = 0 })
	cfgDev("start height=0", func(c *ophosttypes.BridgeConfig) { c.SubmissionStartHeight = 0 })
	cfgDev("start height=max", func(c *ophosttypes.BridgeConfig) { c.SubmissionStartHeight = math.MaxUint64 })
	cfgDev("oracle enabled", func(c *ophosttypes.BridgeConfig) { c.OracleEnabled = true })
	for _, d := range []struct {
		name string
		to   string
		coin sdk.Coin
		data []byte
	}{
		{"to=one space", " ", world.Coin("uxx", 1), nil},
		{"to=non-ASCII 300 bytes", long, world.Coin("uxx", 1), nil},
		{"amount=0", "l2addr", world.Coin("uxx", 0), nil},
		{"amount=all the sender has", "l2addr", world.Coin("uyy", 90), nil},
		{"data=10 kB", "l2addr", world.Coin("uxx", 1), bytes.Repeat([]byte{0xfe}, 10_000)},
		{"data=empty non-nil", "l2addr", world.Coin("uxx", 1), []byte{}},
		{"denom nobody holds", "l2addr", world.Coin("ibc/27394FB092D2ECCD56123C74F36E4C1F926001CEADA9CA97EA622B25F41E5EB2", 1), nil},
	} {
		d := d
		add("Deposit(b1)["+d.name+"]", func(s *c16L1State) sdk.Msg {
			return ophosttypes.NewMsgInitiateTokenDeposit(a("alice"), 1, d.to, d.coin, d.data)
		})
	}
	for _, p := range []struct {
		name string
		l2   uint64
		root []byte
	}{
		{"l2 block=max", math.MaxUint64, y.tree.OutputRoot[:]},
		{"l2 block=next possible", 0, y.tree.OutputRoot[:]},
		{"root=zeros", 1 << 40, make([]byte, 32)},
		{"root=ff", 1 << 41, bytes.Repeat([]byte{0xff}, 32)},
	} {
		p := p
		add("Propose(b1)["+p.name+"]", func(s *c16L1State) sdk.Msg {
			n, _ := s.w.HK.GetNextOutputIndex(s.ctx, 1)
			l2 := p.l2
			if l2 == 0 {
				if n > 1 {
					if o, err := s.w.HK.GetOutputProposal(s.ctx, 1, n-1); err == nil {
						l2 = o.L2BlockNumber + 1
					}
				}
			}
			return ophosttypes.NewMsgProposeOutput(a("proposer"), 1, n, l2, p.root)
		})
	}
	for _, b := range []struct {
		name string
		bi   ophosttypes.BatchInfo
	}{
		{"submitter=empty", ophosttypes.BatchInfo{Submitter: "", ChainType: ophosttypes.BatchInfo_CHAIN_TYPE_CELESTIA}},
		{"submitter=non-ASCII", ophosttypes.BatchInfo{Submitter: long, ChainType: ophosttypes.BatchInfo_CHAIN_TYPE_CELESTIA}},
		{"chain type=unspecified", ophosttypes.BatchInfo{Submitter: a("submitter"), ChainType: 0}},
		{"chain type=3", ophosttypes.BatchInfo{Submitter: a("submitter"), ChainType: 3}},
		{"same as current", ophosttypes.BatchInfo{Submitter: a("submitter"), ChainType: ophosttypes.BatchInfo_CHAIN_TYPE_INITIA}},
	} {
		b := b
		add("UpdateBatchInfo(b1)["+b.name+"]", func(s *c16L1State) sdk.Msg { return ophosttypes.NewMsgUpdateBatchInfo(s.w.Authority, 1, b.bi) })
	}
	for _, m := range []struct {
		name string
		md   []byte
	}{{"nil", nil}, {"empty non-nil", []byte{}}, {"5000 bytes", bytes.Repeat([]byte{0x80}, 5000)}, {"5001 bytes", bytes.Repeat([]byte{0x80}, 5001)}, {"one zero byte", []byte{0}}} {
		m := m
		add("UpdateMetadata(b1)["+m.name+"]", func(s *c16L1State) sdk.Msg { return ophosttypes.NewMsgUpdateMetadata(s.w.Authority, 1, m.md) })
	}
	add("UpdateProposer(b1)[upper case]", func(s *c16L1State) sdk.Msg {
		return ophosttypes.NewMsgUpdateProposer(s.w.Authority, 1, strings.ToUpper(a("proposer2")))
	})
	add("UpdateProposer(b1)[to the challenger]", func(s *c16L1State) sdk.Msg {
		return ophosttypes.NewMsgUpdateProposer(s.w.Authority, 1, a("challenger"))
	})
	add("UpdateChallenger(b1)[upper case]", func(s *c16L1State) sdk.Msg {
		return ophosttypes.NewMsgUpdateChallenger(s.w.Authority, 1, strings.ToUpper(a("challenger2")))
	})
	add("UpdateOracleConfig(b1)[off while off]", func(s *c16L1State) sdk.Msg { return ophosttypes.NewMsgUpdateOracleConfig(s.w.Authority, 1, false) })
	for _, f := range []struct {
		name string
		fee  sdk.Coins
	}{
		{"fee=none", sdk.Coins{}},
		{"fee=nil", nil},
		{"fee=two denoms", sdk.NewCoins(world.Coin("uxx", 1), world.Coin("uyy", 2))},
		{"fee=2^64", sdk.NewCoins(sdk.NewCoin("uxx", sdkmath.NewIntFromUint64(math.MaxUint64).AddRaw(1)))},
		{"fee=unsorted", sdk.Coins{world.Coin("uyy", 2), world.Coin("uxx", 1)}},
		{"fee=zero coin", sdk.Coins{world.Coin("uxx", 0)}},
		{"fee=same denom twice", sdk.Coins{world.Coin("uxx", 1), world.Coin("uxx", 2)}},
	} {
		f := f
		add("UpdateParams["+f.name+"]", func(s *c16L1State) sdk.Msg {
			return ophosttypes.NewMsgUpdateParams(s.w.Authority, &ophosttypes.Params{RegistrationFee: f.fee})
		})
	}
	add("RecordBatch", func(s *c16L1State) sdk.Msg { return ophosttypes.NewMsgRecordBatch(a("submitter"), 1, []byte{1, 2, 3}) })
	return ops
}

func (y *c16L1Sys) Step(s *c16L1State, l engine.Letter) (*c16L1State, string, *engine.Violation) {
	ctx, _ := s.ctx.CacheContext()
	c := &c16L1State{ctx: ctx, w: s.w, nbr: s.nbr, depth: s.depth + 1}
	if l.Data == nil {
		c.ctx = world.Advance(ctx, 11*time.Second)
		return c, "ok", nil
	}
	op := l.Data.(c16L1Op)
	r := s.w.Deliver(ctx, op.msg(s))
	if r.OK() {
		return c, "accepted", nil
	}
	return c, "rejected", nil
}

// script: one instance of every message and query type, touching every collection.
func (y *c16L1Sys) script(w *world.L1, ctx sdk.Context) []string {
	var out []string
	a := func(n string) string { return world.Addr(n).String() }
	d := func(name string, m sdk.Msg) {
		out = append(out, showRes(name, w.Deliver(ctx, m)))
	}
	q := w.Q
	queries := func(tag string) {
		for id := uint64(1); id <= 3; id++ {
			r1, e1 := q.Bridge(ctx, &ophosttypes.QueryBridgeRequest{BridgeId: id})
			out = append(out, showQ(fmt.Sprintf("%s Bridge(%d)", tag, id), r1, e1))
			r2, e2 := q.TokenPairs(ctx, &ophosttypes.QueryTokenPairsRequest{BridgeId: id})
			out = append(out, showQ(fmt.Sprintf("%s TokenPairs(%d)", tag, id), r2, e2))
			r3, e3 := q.OutputProposals(ctx, &ophosttypes.QueryOutputProposalsRequest{BridgeId: id})
			out = append(out, showQ(fmt.Sprintf("%s OutputProposals(%d)", tag, id), r3, e3))
			r4, e4 := q.LastFinalizedOutput(ctx, &ophosttypes.QueryLastFinalizedOutputRequest{BridgeId: id})
			out = append(out, showQ(fmt.Sprintf("%s LastFinalizedOutput(%d)", tag, id), r4, e4))
			r5, e5 := q.NextL1Sequence(ctx, &ophosttypes.QueryNextL1SequenceRequest{BridgeId: id})
			out = append(out, showQ(fmt.Sprintf("%s NextL1Sequence(%d)", tag, id), r5, e5))
			r6, e6 := q.BatchInfos(ctx, &ophosttypes.QueryBatchInfosRequest{BridgeId: id})
			out = append(out, showQ(fmt.Sprintf("%s BatchInfos(%d)", tag, id), r6, e6))
			for ti, t := range []*wtree{y.tree, y.tree2} {
				for i := 0; i < 2; i++ {
					h := t.Ws[i].leaf()
					r7, e7 := q.Claimed(ctx, &ophosttypes.QueryClaimedRequest{BridgeId: id, WithdrawalHash: h[:]})
					out = append(out, showQ(fmt.Sprintf("%s Claimed(%d,tree%d.w%d)", tag, id, ti+1, i+1), r7, e7))
				}
			}
			n, e8 := w.HK.GetNextOutputIndex(ctx, id)
			out = append(out, fmt.Sprintf("%s NextOutputIndex(%d) -> %d %s", tag, id, n, showErr(e8)))
		}
		r, e := q.Bridges(ctx, &ophosttypes.QueryBridgesRequest{})
		out = append(out, showQ(tag+" Bridges", r, e))
		rp, ep := q.Params(ctx, &ophosttypes.QueryParamsRequest{})
		out = append(out, showQ(tag+" Params", rp, ep))
		r9, e9 := q.TokenPairByL2Denom(ctx, &ophosttypes.QueryTokenPairByL2DenomRequest{BridgeId: 1, L2Denom: ophosttypes.L2Denom(1, "uxx")})
		out = append(out, showQ(tag+" TokenPairByL2Denom", r9, e9))
		for _, n := range []string{"alice", "bob", "creator"} {
			out = append(out, fmt.Sprintf("%s balance(%s)=%s", tag, n, w.BK.GetAllBalances(ctx, world.Addr(n))))
		}
		for id := uint64(1); id <= 3; id++ {
			out = append(out, fmt.Sprintf("%s escrow(%d)=%s", tag, id, w.BK.GetAllBalances(ctx, ophosttypes.BridgeAddress(id))))
		}
	}
	queries("before")
	for id := uint64(1); id <= 3; id++ {
		d(fmt.Sprintf("Deposit(b%d)", id), ophosttypes.NewMsgInitiateTokenDeposit(a("alice"), id, "l2", world.Coin("uxx", 2), nil))
		n, _ := w.HK.GetNextOutputIndex(ctx, id)
		for _, p := range []string{"proposer", "proposer2"} {
			d(fmt.Sprintf("Propose(b%d,by=%s)", id, p), ophosttypes.NewMsgProposeOutput(a(p), id, n, 100000+n, y.tree.OutputRoot[:]))
		}
	}
	for i := 0; i < 2; i++ {
		for idx := uint64(1); idx <= 2; idx++ {
			d(fmt.Sprintf("Claim(w%d,idx=%d)", i+1, idx), y.tree.claim(i, idx, "bob"))
			d(fmt.Sprintf("Claim(b2.w%d,idx=%d)", i+1, idx), y.tree2.claim(i, idx, "bob"))
		}
	}
	for _, c := range []string{"challenger", "challenger2"} {
		d("Delete(b1,2,by="+c+")", ophosttypes.NewMsgDeleteOutput(a(c), 1, 2))
	}
	d("UpdateBatchInfo", ophosttypes.NewMsgUpdateBatchInfo(w.Authority, 1, ophosttypes.BatchInfo{Submitter: a("bob"), ChainType: ophosttypes.BatchInfo_CHAIN_TYPE_CELESTIA}))
	d("CreateBridge", ophosttypes.NewMsgCreateBridge(a("creator"), world.BridgeConfig("proposer", "challenger", 5*time.Second)))
	queries("after")
	return out
}

func (y *c16L1Sys) export(w *world.L1, ctx sdk.Context) (string, *ophosttypes.GenesisState, error) {
	gs := w.HK.ExportGenesis(ctx)
	bz, err := w.Enc.Marshaler.MarshalJSON(gs)
	if err != nil {
		return "", nil, err
	}
	ab, err := w.Enc.Marshaler.MarshalJSON(w.AK.ExportGenesis(ctx))
	if err != nil {
		return "", nil, err
	}
	bb, err := w.Enc.Marshaler.MarshalJSON(w.BK.ExportGenesis(ctx))
	if err != nil {
		return "", nil, err
	}
	return string(bz) + "\n" + string(ab) + "\n" + string(bb), gs, nil
}

func (y *c16L1Sys) Check(s *c16L1State) (v *engine.Violation) {
	defer func() {
		if r := recover(); r != nil {
			v = viol("genesis-round-trip-does-not-panic", "export/import panicked: %v", r)
		}
	}()
	exp, gs, err := y.export(s.w, s.ctx)
	if err != nil {
		return viol("genesis-exports", "export failed: %v", err)
	}
	if err := ophosttypes.ValidateGenesis(gs, s.w.AK.AddressCodec()); err != nil {
		return viol("exported-genesis-validates", "ValidateGenesis rejects the exported state: %v", err)
	}
	// import into a blank world (through JSON, as a real restart would)
	b := y.blankFor(s.w)
	bctx, _ := b.Ctx.CacheContext()
	bctx = bctx.WithBlockHeight(s.ctx.BlockHeight()).WithBlockTime(s.ctx.BlockTime())
	parts := strings.SplitN(exp, "\n", 3)
	var g2 ophosttypes.GenesisState
	if err := b.Enc.Marshaler.UnmarshalJSON([]byte(parts[0]), &g2); err != nil {
		return viol("exported-genesis-validates", "exported JSON does not decode: %v", err)
	}
	ag := s.w.AK.ExportGenesis(s.ctx)
	bg := s.w.BK.ExportGenesis(s.ctx)
	b.AK.InitGenesis(bctx, *ag)
	b.BK.InitGenesis(bctx, bg)
	b.HK.InitGenesis(bctx, &g2)
	y.clones.Add(1)
	// the imported module store holds every record of the original, byte for byte; the only keys it may
	// add are per-bridge counters that the original left at their default (import writes them out)
	if d := storeDiff(s.ctx, s.w.StoreKeys[2], bctx, b.StoreKeys[2], func(k, v []byte) bool {
		if bytes.Equal(k, ophosttypes.NextBridgeIdKey) {
			return binary.BigEndian.Uint64(v) == ophosttypes.DefaultBridgeIdStart // the id counter of a chain without bridges
		}
		return len(k) == 9 && (k[0] == ophosttypes.NextL1SequencePrefix[0] || k[0] == ophosttypes.NextOutputIndexPrefix[0]) && binary.BigEndian.Uint64(v) == 1
	}, nil); d != "" {
		return tagged(viol("imported-store-equals-the-original", "module store after import differs from the original: %s", d), "chain", "l1")
	}
	exp2, _, err := y.export(b, bctx)
	if err != nil {
		return viol("genesis-exports", "re-export failed: %v", err)
	}
	exp2 = strings.SplitN(exp2, "\n", 2)[0] // the module's own genesis (auth/bank are only carried along)
	if exp2 != parts[0] {
		return tagged(viol("re-export-is-identical", "exported genesis differs after import:\n  original: %.600s\n  clone:    %.600s", diffAround(parts[0], exp2), diffAround(exp2, parts[0])), "chain", "l1")
	}
	// behaviour: the same script on both
	octx, _ := s.ctx.CacheContext()
	t1 := y.script(s.w, octx)
	t2 := y.script(b, bctx)
	y.probes.Add(int64(len(t1)))
	if d := firstDiff(t1, t2); d != "" {
		return tagged(viol("clone-answers-like-the-original", "probe script diverges at %s", d), "chain", "l1")
	}
	e1, _, _ := y.export(s.w, octx)
	e2, _, _ := y.export(b, bctx)
	e1, e2 = strings.SplitN(e1, "\n", 2)[0], strings.SplitN(e2, "\n", 2)[0]
	if e1 != e2 {
		return tagged(viol("clone-answers-like-the-original", "exports differ after the probe script:\n  original: %.600s\n  clone:    %.600s", diffAround(e1, e2), diffAround(e2, e1)), "chain", "l1")
	}
	return nil
}

// storeDiff compares two module stores key by key. extraOK says which keys may exist only in the
// clone; lostOK (may be nil) which keys of the original the genesis is not expected to carry.
func storeDiff(octx sdk.Context, okey storetypes.StoreKey, cctx sdk.Context, ckey storetypes.StoreKey, extraOK func(k, v []byte) bool, lostOK func(k []byte) bool) string {
	orig, clone := octx.KVStore(okey), cctx.KVStore(ckey)
	it := orig.Iterator(nil, nil)
	defer it.Close()
	for ; it.Valid(); it.Next() {
		if lostOK != nil && lostOK(it.Key()) {
			continue
		}
		cv := clone.Get(it.Key())
		if cv == nil {
			return fmt.Sprintf("key %x (value %x) is missing in the clone", it.Key(), it.Value())
		}
		if !bytes.Equal(cv, it.Value()) {
			return fmt.Sprintf("key %x holds %x in the original and %x in the clone", it.Key(), it.Value(), cv)
		}
	}
	it2 := clone.Iterator(nil, nil)
	defer it2.Close()
	for ; it2.Valid(); it2.Next() {
		if orig.Has(it2.Key()) || (lostOK != nil && lostOK(it2.Key())) {
			continue
		}
		if !extraOK(it2.Key(), it2.Value()) {
			return fmt.Sprintf("key %x (value %x) exists only in the clone", it2.Key(), it2.Value())
		}
	}
	return ""
}

func diffAround(a, b string) string {
	i := 0
	for i < len(a) && i < len(b) && a[i] == b[i] {
		i++
	}
	st := i - 120
	if st < 0 {
		st = 0
	}
	en := i + 300
	if en > len(a) {
		en = len(a)
	}
	return "…" + a[st:en]
}

// ------------------------------------------------------------------------------------------ L2

type c16L2State struct {
	ctx   sdk.Context
	w     *world.L2
	depth int
}

type c16L2Sys struct {
	dev    bool // as c16L1Sys.dev
	blank  map[*world.L2]*world.L2
	mu     sync.Mutex
	clones atomic.Int64
	probes atomic.Int64
}

func (y *c16L2Sys) Root() *c16L2State {
	w := world.NewL2(world.L2Options{
		Accounts:   map[string]sdk.Coins{"alice": nil, "bob": nil, "executor": nil, "admin": nil, "o1": nil, "o2": nil, "o3": nil},
		Validators: [][2]string{{"o1", "k1"}},
		Params:     func(p *opchildtypes.Params) { p.MaxValidators = 3; p.HistoricalEntries = 1 },
	})
	return &c16L2State{ctx: w.Ctx, w: w}
}

func (y *c16L2Sys) Digest(s *c16L2State) [32]byte { return s.w.Digest(s.ctx) }

type c16L2Op struct {
	name string
	f    func(s *c16L2State, ctx sdk.Context) (sdk.Context, bool)
}

func (y *c16L2Sys) Letters(s *c16L2State) []engine.Letter {
	ex := world.Addr("executor").String()
	alice := world.Addr("alice").String()
	den := c06Denom
	deliver := func(mk func(s *c16L2State, ctx sdk.Context) sdk.Msg) func(s *c16L2State, ctx sdk.Context) (sdk.Context, bool) {
		return func(s *c16L2State, ctx sdk.Context) (sdk.Context, bool) {
			return ctx, s.w.Deliver(ctx, mk(s, ctx)).OK()
		}
	}
	dep := func(to string, data []byte) func(s *c16L2State, ctx sdk.Context) sdk.Msg {
		return func(s *c16L2State, ctx sdk.Context) sdk.Msg {
			n, _ := s.w.K.GetNextL1Sequence(ctx)
			return opchildtypes.NewMsgFinalizeTokenDeposit(ex, "l1sender", to, sdk.NewInt64Coin(den, 3), n, 4, "uxx", data)
		}
	}
	ops := []c16L2Op{
		{"Deposit(credited)", deliver(dep(alice, nil))},
		{"Deposit(refunded)", deliver(dep("garbage", nil))},
		{"Withdraw(alice,1)", deliver(func(s *c16L2State, ctx sdk.Context) sdk.Msg {
			return opchildtypes.NewMsgInitiateTokenWithdrawal(alice, "l1addr", sdk.NewInt64Coin(den, 1))
		})},
		{"AddValidator(o2,k2)", deliver(func(s *c16L2State, ctx sdk.Context) sdk.Msg {
			m, _ := opchildtypes.NewMsgAddValidator("o2", s.w.Authority, valOf("o2"), world.EdKey("k2").PubKey())
			return m
		})},
		{"RemoveValidator(o1)", deliver(func(s *c16L2State, ctx sdk.Context) sdk.Msg {
			m, _ := opchildtypes.NewMsgRemoveValidator(s.w.Authority, valOf("o1"))
			return m
		})},
		{"RemoveValidator(o2)", deliver(func(s *c16L2State, ctx sdk.Context) sdk.Msg {
			m, _ := opchildtypes.NewMsgRemoveValidator(s.w.Authority, valOf("o2"))
			return m
		})},
		{"UpdateParams(hookgas,whitelist)", deliver(func(s *c16L2State, ctx sdk.Context) sdk.Msg {
			p, _ := s.w.K.GetParams(ctx)
			p.HookMaxGas = 12345
			p.FeeWhitelist = []string{alice}
			p.MinGasPrices = sdk.NewDecCoins(sdk.NewInt64DecCoin("umin", 2))
			return opchildtypes.NewMsgUpdateParams(s.w.Authority, &p)
		})},
		{"SetBridgeInfo", deliver(func(s *c16L2State, ctx sdk.Context) sdk.Msg {
			return opchildtypes.NewMsgSetBridgeInfo(ex, c12Info("07-tendermint-0"))
		})},
		{"NextBlock", func(s *c16L2State, ctx sdk.Context) (sdk.Context, bool) {
			n, _, err := c16NextBlock(s.w, ctx)
			return n, err == ""
		}},
	}
	if y.dev && s.depth == 0 {
		long := strings.Repeat("ü/", 100)
		up := func(name string, mod func(p *opchildtypes.Params)) {
			ops = append(ops, c16L2Op{"UpdateParams[" + name + "]", deliver(func(s *c16L2State, ctx sdk.Context) sdk.Msg {
				p, _ := s.w.K.GetParams(ctx)
				mod(&p)
				return opchildtypes.NewMsgUpdateParams(s.w.Authority, &p)
			})})
		}
		up("max validators=1", func(p *opchildtypes.Params) { p.MaxValidators = 1 })
		up("max validators=0", func(p *opchildtypes.Params) { p.MaxValidators = 0 })
		up("max validators=100", func(p *opchildtypes.Params) { p.MaxValidators = 100 })
		up("historical entries=0", func(p *opchildtypes.Params) { p.HistoricalEntries = 0 })
		up("historical entries=max", func(p *opchildtypes.Params) { p.HistoricalEntries = math.MaxUint32 })
		up("min gas prices=none", func(p *opchildtypes.Params) { p.MinGasPrices = sdk.DecCoins{} })
		up("min gas prices=nil", func(p *opchildtypes.Params) { p.MinGasPrices = nil })
		up("min gas prices=two denoms", func(p *opchildtypes.Params) {
			p.MinGasPrices = sdk.NewDecCoins(sdk.NewInt64DecCoin("umin", 2), sdk.NewInt64DecCoin("uother", 1))
		})
		up("min gas prices=smallest fraction", func(p *opchildtypes.Params) {
			p.MinGasPrices = sdk.DecCoins{sdk.NewDecCoinFromDec("umin", sdkmath.LegacyNewDecWithPrec(1, 18))}
		})
		up("min gas prices=10^60", func(p *opchildtypes.Params) {
			h, _ := sdkmath.NewIntFromString("1" + strings.Repeat("0", 60))
			p.MinGasPrices = sdk.DecCoins{sdk.NewDecCoin("umin", h)}
		})
		up("min gas prices=zero price", func(p *opchildtypes.Params) { p.MinGasPrices = sdk.DecCoins{sdk.NewInt64DecCoin("umin", 0)} })
		up("min gas prices=unsorted", func(p *opchildtypes.Params) {
			p.MinGasPrices = sdk.DecCoins{sdk.NewInt64DecCoin("uzz", 1), sdk.NewInt64DecCoin("uaa", 1)}
		})
		up("executors=repeated", func(p *opchildtypes.Params) { p.BridgeExecutors = []string{ex, ex} })
		up("executors=none", func(p *opchildtypes.Params) { p.BridgeExecutors = []string{} })
		up("executors=upper case", func(p *opchildtypes.Params) { p.BridgeExecutors = []string{strings.ToUpper(ex)} })
		up("executors=with an empty entry", func(p *opchildtypes.Params) { p.BridgeExecutors = []string{ex, ""} })
		up("admin=upper case", func(p *opchildtypes.Params) { p.Admin = strings.ToUpper(world.Addr("admin").String()) })
		up("admin=empty", func(p *opchildtypes.Params) { p.Admin = "" })
		up("whitelist=repeated", func(p *opchildtypes.Params) { p.FeeWhitelist = []string{alice, alice} })
		up("whitelist=upper case", func(p *opchildtypes.Params) { p.FeeWhitelist = []string{strings.ToUpper(alice)} })
		up("whitelist=validator-prefixed address", func(p *opchildtypes.Params) { p.FeeWhitelist = []string{valOf("o1")} })
		up("whitelist=empty non-nil", func(p *opchildtypes.Params) { p.FeeWhitelist = []string{} })
		up("hook gas=0", func(p *opchildtypes.Params) { p.HookMaxGas = 0 })
		up("hook gas=max", func(p *opchildtypes.Params) { p.HookMaxGas = math.MaxUint64 })
		info := func(name string, mod func(b *opchildtypes.BridgeInfo)) {
			ops = append(ops, c16L2Op{"SetBridgeInfo[" + name + "]", deliver(func(s *c16L2State, ctx sdk.Context) sdk.Msg {
				b := c12Info("07-tendermint-0")
				mod(&b)
				return opchildtypes.NewMsgSetBridgeInfo(ex, b)
			})})
		}
		info("client id=empty", func(b *opchildtypes.BridgeInfo) { b.L1ClientId = "" })
		info("client id=non-ASCII", func(b *opchildtypes.BridgeInfo) { b.L1ClientId = long })
		info("chain id=one space", func(b *opchildtypes.BridgeInfo) { b.L1ChainId = " " })
		info("chain id=non-ASCII", func(b *opchildtypes.BridgeInfo) { b.L1ChainId = long })
		info("bridge id=max", func(b *opchildtypes.BridgeInfo) {
			b.BridgeId = math.MaxUint64
			b.BridgeAddr = sdk.AccAddress(ophosttypes.BridgeAddress(math.MaxUint64)).String()
		})
		info("bridge address=upper case", func(b *opchildtypes.BridgeInfo) { b.BridgeAddr = strings.ToUpper(b.BridgeAddr) })
		info("bridge address of another id", func(b *opchildtypes.BridgeInfo) { b.BridgeAddr = sdk.AccAddress(ophosttypes.BridgeAddress(2)).String() })
		info("metadata=5000 bytes", func(b *opchildtypes.BridgeInfo) { b.BridgeConfig.Metadata = bytes.Repeat([]byte{0x80}, 5000) })
		info("chain type=unspecified", func(b *opchildtypes.BridgeInfo) { b.BridgeConfig.BatchInfo.ChainType = 0 })
		info("chain type=3", func(b *opchildtypes.BridgeInfo) { b.BridgeConfig.BatchInfo.ChainType = 3 })
		info("period=1ns", func(b *opchildtypes.BridgeInfo) { b.BridgeConfig.FinalizationPeriod = 1 })
		info("period=max", func(b *opchildtypes.BridgeInfo) { b.BridgeConfig.FinalizationPeriod = math.MaxInt64 })
		info("submitter=non-ASCII", func(b *opchildtypes.BridgeInfo) { b.BridgeConfig.BatchInfo.Submitter = long })
		info("proposer=upper case", func(b *opchildtypes.BridgeInfo) { b.BridgeConfig.Proposer = strings.ToUpper(b.BridgeConfig.Proposer) })
		for _, m := range []struct{ name, moniker string }{{"moniker=empty", ""}, {"moniker=70 characters", strings.Repeat("m", 70)}, {"moniker=71 characters", strings.Repeat("m", 71)}, {"moniker=non-ASCII", "验证者 ü"}} {
			m := m
			ops = append(ops, c16L2Op{"AddValidator(o2,k2)[" + m.name + "]", deliver(func(s *c16L2State, ctx sdk.Context) sdk.Msg {
				mm, _ := opchildtypes.NewMsgAddValidator(m.moniker, s.w.Authority, valOf("o2"), world.EdKey("k2").PubKey())
				return mm
			})})
		}
		for _, d := range []struct {
			name, to, base string
			amt            sdkmath.Int
			height         uint64
			data           []byte
		}{
			{"to=non-ASCII 300 bytes", long, "uxx", sdkmath.NewInt(3), 4, nil},
			{"to=one space", " ", "uxx", sdkmath.NewInt(3), 4, nil},
			{"base denom=ibc path", alice, "ibc/27394FB092D2ECCD56123C74F36E4C1F926001CEADA9CA97EA622B25F41E5EB2", sdkmath.NewInt(3), 4, nil},
			{"base denom=128 characters", alice, "d" + strings.Repeat("x", 127), sdkmath.NewInt(3), 4, nil},
			{"amount=0", alice, "uxx", sdkmath.NewInt(0), 4, nil},
			{"amount=2^64-1", alice, "uxx", sdkmath.NewIntFromUint64(math.MaxUint64), 4, nil},
			{"height=max", alice, "uxx", sdkmath.NewInt(3), math.MaxUint64, nil},
			{"data=10 kB", alice, "uxx", sdkmath.NewInt(3), 4, bytes.Repeat([]byte{0xfe}, 10_000)},
			{"from=non-ASCII", alice, "uxx", sdkmath.NewInt(3), 4, nil},
			{"a second l2 denom of the same base denom", alice, "uxx", sdkmath.NewInt(3), 4, nil},
		} {
			d := d
			ops = append(ops, c16L2Op{"Deposit[" + d.name + "]", deliver(func(s *c16L2State, ctx sdk.Context) sdk.Msg {
				n, _ := s.w.K.GetNextL1Sequence(ctx)
				from := "l1sender"
				if d.name == "from=non-ASCII" {
					from = long
				}
				l2d := den
				if d.base != "uxx" {
					l2d = ophosttypes.L2Denom(1, d.base)
				}
				if d.name == "a second l2 denom of the same base denom" {
					l2d = ophosttypes.L2Denom(2, "uxx")
				}
				return opchildtypes.NewMsgFinalizeTokenDeposit(ex, from, d.to, sdk.NewCoin(l2d, d.amt), n, d.height, d.base, d.data)
			})})
		}
	}
	var ls []engine.Letter
	for _, op := range ops {
		ls = append(ls, engine.Letter{Name: op.name, Data: op})
	}
	return ls
}

// c16NextBlock: EndBlock, height+1, BeginBlock; returns the validator updates rendered as text.
func c16NextBlock(w *world.L2, ctx sdk.Context) (sdk.Context, string, string) {
	var ups []abci.ValidatorUpdate
	var err error
	var pan any
	func() {
		defer func() { pan = recover() }()
		ups, err = opchild.EndBlocker(ctx, w.K)
	}()
	if pan != nil {
		return ctx, "", fmt.Sprintf("endblock panic: %v", pan)
	}
	if err != nil {
		return ctx, "", "endblock error: " + err.Error()
	}
	txt := showUpdates(ups)
	n := ctx.WithBlockHeight(ctx.BlockHeight() + 1).WithBlockTime(ctx.BlockTime().Add(5 * time.Second))
	h := n.BlockHeader()
	h.Height = n.BlockHeight()
	h.Time = n.BlockTime()
	n = n.WithBlockHeader(h)
	func() {
		defer func() { pan = recover() }()
		err = opchild.BeginBlocker(n, w.K)
	}()
	if pan != nil {
		return n, txt, fmt.Sprintf("beginblock panic: %v", pan)
	}
	if err != nil {
		return n, txt, "beginblock error: " + err.Error()
	}
	return n, txt, ""
}

func showUpdates(ups []abci.ValidatorUpdate) string {
	var p []string
	for _, u := range ups {
		p = append(p, fmt.Sprintf("%s:%d", keyName(hex.EncodeToString(u.PubKey.GetEd25519())), u.Power))
	}
	return "[" + strings.Join(p, " ") + "]"
}

func (y *c16L2Sys) Step(s *c16L2State, l engine.Letter) (*c16L2State, string, *engine.Violation) {
	ctx, _ := s.ctx.CacheContext()
	op := l.Data.(c16L2Op)
	nctx, ok := op.f(s, ctx)
	c := &c16L2State{ctx: nctx, w: s.w, depth: s.depth + 1}
	if ok {
		return c, "accepted", nil
	}
	if l.Name == "NextBlock" {
		return c, "cut", &engine.Violation{Clause: "cut:block-failed", Msg: "block processing failed (C13's subject)"}
	}
	return c, "rejected", nil
}

func (y *c16L2Sys) blankFor(w *world.L2) *world.L2 {
	y.mu.Lock()
	defer y.mu.Unlock()
	if b, ok := y.blank[w]; ok {
		return b
	}
	b := world.NewL2(world.L2Options{Blank: true})
	y.blank[w] = b
	return b
}

func (y *c16L2Sys) export(w *world.L2, ctx sdk.Context) (string, *opchildtypes.GenesisState, error) {
	gs := w.K.ExportGenesis(ctx)
	bz, err := w.Enc.Marshaler.MarshalJSON(gs)
	if err != nil {
		return "", nil, err
	}
	ab, err := w.Enc.Marshaler.MarshalJSON(w.AK.ExportGenesis(ctx))
	if err != nil {
		return "", nil, err
	}
	bb, err := w.Enc.Marshaler.MarshalJSON(w.BK.ExportGenesis(ctx))
	if err != nil {
		return "", nil, err
	}
	return string(bz) + "\n" + string(ab) + "\n" + string(bb), gs, nil
}

func (y *c16L2Sys) script(w *world.L2, ctx sdk.Context) []string {
	var out []string
	ex := world.Addr("executor").String()
	alice := world.Addr("alice").String()
	d := func(name string, m sdk.Msg) { out = append(out, showRes(name, w.Deliver(ctx, m))) }
	queries := func(tag string) {
		r1, e1 := w.Q.Validators(ctx, &opchildtypes.QueryValidatorsRequest{})
		out = append(out, showQ(tag+" Validators", r1, e1))
		for _, o := range vsOps {
			r, e := w.Q.Validator(ctx, &opchildtypes.QueryValidatorRequest{ValidatorAddr: valOf(o)})
			out = append(out, showQ(tag+" Validator("+o+")", r, e))
		}
		r2, e2 := w.Q.Params(ctx, &opchildtypes.QueryParamsRequest{})
		out = append(out, showQ(tag+" Params", r2, e2))
		r3, e3 := w.Q.NextL1Sequence(ctx, &opchildtypes.QueryNextL1SequenceRequest{})
		out = append(out, showQ(tag+" NextL1Sequence", r3, e3))
		r4, e4 := w.Q.NextL2Sequence(ctx, &opchildtypes.QueryNextL2SequenceRequest{})
		out = append(out, showQ(tag+" NextL2Sequence", r4, e4))
		r5, e5 := w.Q.BridgeInfo(ctx, &opchildtypes.QueryBridgeInfoRequest{})
		out = append(out, showQ(tag+" BridgeInfo", r5, e5))
		r6, e6 := w.Q.BaseDenom(ctx, &opchildtypes.QueryBaseDenomRequest{Denom: c06Denom})
		out = append(out, showQ(tag+" BaseDenom", r6, e6))
		for _, n := range []string{"alice", "bob"} {
			out = append(out, fmt.Sprintf("%s balance(%s)=%s", tag, n, w.BK.GetAllBalances(ctx, world.Addr(n))))
		}
		out = append(out, fmt.Sprintf("%s supply=%s", tag, w.BK.GetSupply(ctx, c06Denom)))
		var lp []string
		_ = w.K.IterateLastValidatorPowers(ctx, func(op []byte, p int64) (bool, error) {
			lp = append(lp, fmt.Sprintf("%s:%d", opName(sdk.ValAddress(op).String()), p))
			return false, nil
		})
		out = append(out, tag+" LastValidatorPowers="+strings.Join(lp, ","))
	}
	queries("before")
	n, _ := w.K.GetNextL1Sequence(ctx)
	d("Deposit(next)", opchildtypes.NewMsgFinalizeTokenDeposit(ex, "l1sender", alice, sdk.NewInt64Coin(c06Denom, 2), n, 4, "uxx", nil))
	d("Deposit(next+1,refund)", opchildtypes.NewMsgFinalizeTokenDeposit(ex, "l1sender", "garbage", sdk.NewInt64Coin(c06Denom, 2), n+1, 4, "uxx", nil))
	d("Deposit(stale)", opchildtypes.NewMsgFinalizeTokenDeposit(ex, "l1sender", alice, sdk.NewInt64Coin(c06Denom, 2), n, 4, "uxx", nil))
	d("Withdraw", opchildtypes.NewMsgInitiateTokenWithdrawal(alice, "l1addr", sdk.NewInt64Coin(c06Denom, 1)))
	// a fresh operator with each consensus key that may already be in use (exercises the consensus-key index)
	for _, k := range vsKeys {
		ctxb, _ := ctx.CacheContext()
		mk, _ := opchildtypes.NewMsgAddValidator("fresh", w.Authority, valOf("admin"), world.EdKey(k).PubKey())
		out = append(out, showRes("AddValidator(fresh-operator,"+k+") [branch]", w.Deliver(ctxb, mk)))
		val, found := w.K.GetValidatorByConsAddr(ctx, sdk.GetConsAddress(world.EdKey(k).PubKey()))
		out = append(out, fmt.Sprintf("ValidatorByConsAddr(%s) found=%v operator=%s", k, found, opName(val.OperatorAddress)))
	}
	m1, _ := opchildtypes.NewMsgAddValidator("o3", w.Authority, valOf("o3"), world.EdKey("k3").PubKey())
	d("AddValidator(o3,k3)", m1)
	m2, _ := opchildtypes.NewMsgAddValidator("o2", w.Authority, valOf("o2"), world.EdKey("k2").PubKey())
	d("AddValidator(o2,k2)", m2)
	m3, _ := opchildtypes.NewMsgRemoveValidator(w.Authority, valOf("o1"))
	d("RemoveValidator(o1)", m3)
	for i := 0; i < 2; i++ {
		var ups, e string
		ctx, ups, e = c16NextBlock(w, ctx)
		out = append(out, fmt.Sprintf("NextBlock#%d updates=%s err=%q", i+1, ups, e))
		if e != "" {
			break
		}
	}
	queries("after")
	return out
}

func (y *c16L2Sys) Check(s *c16L2State) (v *engine.Violation) {
	defer func() {
		if r := recover(); r != nil {
			v = viol("genesis-round-trip-does-not-panic", "export/import panicked: %v", r)
		}
	}()
	exp, gs, err := y.export(s.w, s.ctx)
	if err != nil {
		return viol("genesis-exports", "export failed: %v", err)
	}
	if err := opchildtypes.ValidateGenesis(gs, s.w.AK.AddressCodec()); err != nil {
		return viol("exported-genesis-validates", "ValidateGenesis rejects the exported state: %v", err)
	}
	b := y.blankFor(s.w)
	bctx, _ := b.Ctx.CacheContext()
	bctx = bctx.WithBlockHeight(s.ctx.BlockHeight()).WithBlockTime(s.ctx.BlockTime())
	hdr := bctx.BlockHeader()
	hdr.Height, hdr.Time = s.ctx.BlockHeight(), s.ctx.BlockTime()
	bctx = bctx.WithBlockHeader(hdr)
	parts := strings.SplitN(exp, "\n", 3)
	var g2 opchildtypes.GenesisState
	if err := b.Enc.Marshaler.UnmarshalJSON([]byte(parts[0]), &g2); err != nil {
		return viol("exported-genesis-validates", "exported JSON does not decode: %v", err)
	}
	b.AK.InitGenesis(bctx, *s.w.AK.ExportGenesis(s.ctx))
	b.BK.InitGenesis(bctx, s.w.BK.ExportGenesis(s.ctx))
	ups := b.K.InitGenesis(bctx, &g2)
	y.clones.Add(1)
	// the imported module store holds every record of the original, byte for byte, except what the
	// property excludes (per-height history, the recorded L1 validator set)
	notExported := func(k []byte) bool {
		return len(k) > 0 && (k[0] == opchildtypes.HistoricalInfoPrefix[0] || k[0] == opchildtypes.HostHeightKey[0] || k[0] == opchildtypes.HostValidatorsPrefix[0])
	}
	if d := storeDiff(s.ctx, s.w.StoreKeys[2], bctx, b.StoreKeys[2], func(k, v []byte) bool { return false }, notExported); d != "" {
		return tagged(viol("imported-store-equals-the-original", "module store after import differs from the original: %s", d), "chain", "l2")
	}
	// the initial validator updates after import describe exactly the bonded set
	tm, err := cmttypes.PB2TM.ValidatorUpdates(ups)
	if err != nil {
		return viol("initial-updates-describe-bonded-set", "PB2TM: %v", err)
	}
	got := map[string]int64{}
	func() {
		defer func() {
			if r := recover(); r != nil {
				got["<invalid batch: "+fmt.Sprint(r)+">"] = -1
			}
		}()
		for _, val := range cmttypes.NewValidatorSet(tm).Validators {
			got[hex.EncodeToString(val.PubKey.Bytes())] = val.VotingPower
		}
	}()
	st := &vsState{ctx: s.ctx, w: s.w}
	_, last, _, vv := st.stateSets(s.ctx)
	if vv != nil {
		return vv
	}
	if canonSet(got) != canonSet(last) {
		return tagged(viol("initial-updates-describe-bonded-set", "InitGenesis returned updates {%s}, the bonded set is {%s}", namedSet(got), namedSet(last)), "chain", "l2")
	}
	exp2, _, err := y.export(b, bctx)
	if err != nil {
		return viol("genesis-exports", "re-export failed: %v", err)
	}
	exp2 = strings.SplitN(exp2, "\n", 2)[0]
	if exp2 != parts[0] {
		return tagged(viol("re-export-is-identical", "exported genesis differs after import:\n  original: %.600s\n  clone:    %.600s", diffAround(parts[0], exp2), diffAround(exp2, parts[0])), "chain", "l2")
	}
	// the imported chain satisfies the same structural invariant as the original: the operator and
	// consensus-key indexes are one-to-one with the stored validators
	if v := (&vsSys{}).indexes(&vsState{ctx: bctx, w: b}); v != nil {
		return tagged(viol("clone-answers-like-the-original", "after import: %s", v.Msg), "chain", "l2", "what", "validator-indexes")
	}
	octx, _ := s.ctx.CacheContext()
	t1 := y.script(s.w, octx)
	t2 := y.script(b, bctx)
	y.probes.Add(int64(len(t1)))
	if d := firstDiff(t1, t2); d != "" {
		return tagged(viol("clone-answers-like-the-original", "probe script diverges at %s", d), "chain", "l2")
	}
	return nil
}

func init() {
	register(&Check{ID: "C16", Level: "model_checking",
		Run: func(rc *engine.RunCtx) *engine.Result {
			res := engine.NewResult()
			y1 := newC16L1Sys()
			o := opts(rc, pick(rc, 4, 5))
			o.Deadline = time.Now().Add(time.Until(rc.Deadline()) / 2)
			// blank-world cache is keyed per world and filled lazily: pre-create to avoid concurrent map writes
			rep, err := engine.Explore[*c16L1State](y1, o)
			if err != nil {
				res.HarnessErr = err
				return res
			}
			res.Absorb("l1", rep)
			y1r := newC16L1Sys()
			y1r.rich = true
			or := opts(rc, pick(rc, 3, 4))
			or.Deadline = time.Now().Add(time.Until(rc.Deadline()) / 2)
			repr, err := engine.Explore[*c16L1State](y1r, or)
			if err != nil {
				res.HarnessErr = err
				return res
			}
			res.Absorb("l1-rich-root", repr)
			y1e := newC16L1Sys()
			y1e.empty = true
			oe := opts(rc, 2)
			oe.Deadline = time.Now().Add(time.Until(rc.Deadline()) / 2)
			repe, err := engine.Explore[*c16L1State](y1e, oe)
			if err != nil {
				res.HarnessErr = err
				return res
			}
			res.Absorb("l1-no-bridge-yet", repe)
			y1.clones.Add(y1e.clones.Load())
			y1.clones.Add(y1r.clones.Load())
			y1.probes.Add(y1r.probes.Load())
			y2 := &c16L2Sys{blank: map[*world.L2]*world.L2{}}
			rep2, err := engine.Explore[*c16L2State](y2, opts(rc, pick(rc, 5, 6)))
			if err != nil {
				res.HarnessErr = err
				return res
			}
			res.Absorb("l2", rep2)
			// field-deviation family: from the rich L1 root and the L2 root, one unusual-but-legal message, then
			// the ordinary alphabet
			y1d := newC16L1Sys()
			y1d.rich, y1d.dev = true, true
			repd, err := engine.Explore[*c16L1State](y1d, opts(rc, pick(rc, 2, 3)))
			if err != nil {
				res.HarnessErr = err
				return res
			}
			res.Absorb("l1-field-deviations", repd)
			y2d := &c16L2Sys{dev: true, blank: map[*world.L2]*world.L2{}}
			repd2, err := engine.Explore[*c16L2State](y2d, opts(rc, pick(rc, 2, 3)))
			if err != nil {
				res.HarnessErr = err
				return res
			}
			res.Absorb("l2-field-deviations", repd2)
			y1.clones.Add(y1d.clones.Load())
			y2.clones.Add(y2d.clones.Load())
			res.Coverage["field_deviation_letters"] = map[string]any{"l1": len(y1d.devOps()), "l2": "see search/l2-field-deviations", "what": "every message type once per unusual-but-legal value of one field: boundary numbers and durations, empty / one-space / long non-ASCII / upper-case strings, undeclared and unspecified enum values, nil vs empty, repeated / unsorted / empty list entries"}
			res.Coverage["round_trips"] = map[string]any{"l1_clones": y1.clones.Load(), "l1_probe_steps_compared": y1.probes.Load(), "l2_clones": y2.clones.Load(), "l2_probe_steps_compared": y2.probes.Load()}
			res.Coverage["alphabet"] = "L1 (from a chain without any bridge, from a one-bridge root and from a root with two bridges that each have deposits, a final output, a paid withdrawal and a batch-info change): CreateBridge, deposits into two bridges, Propose, Delete, Claim, UpdateBatchInfo (two values), UpdateMetadata, UpdateOracleConfig, UpdateProposer, UpdateChallenger, UpdateParams(fee), Advance; L2: credited and refunded deposits, withdrawal, AddValidator, RemoveValidator (bonded / fresh), UpdateParams, SetBridgeInfo, NextBlock"
			res.Coverage["oracle"] = "in every distinct state: export module + auth + bank genesis, ValidateGenesis passes, JSON round trip, import into a blank world, re-export byte-identical; the imported module store equals the original's key by key (L1: plus per-bridge counters written out at their default; L2: minus per-height history and the recorded L1 validator set); a fixed probe script (every message type incl. wrong signers, stale/next deposits, claims, deletes, two blocks; every query type) gives identical responses, errors, events, validator updates and final exports on original and clone; L2: InitGenesis's validator updates applied to an empty CometBFT set = bonded set"
			res.Assumptions = []string{"host-validator snapshot, per-height history and the in-memory plan table are excluded by the property"}
			res.Require(y1.clones.Load() > 50 && y2.clones.Load() > 50, "too few round trips")
			return res
		},
		Replay: func(kind string, path []string) ([]string, *engine.Violation, error) {
			if kind == "l2" {
				return engine.Replay[*c16L2State](&c16L2Sys{blank: map[*world.L2]*world.L2{}}, path)
			}
			if kind == "l2-field-deviations" {
				return engine.Replay[*c16L2State](&c16L2Sys{dev: true, blank: map[*world.L2]*world.L2{}}, path)
			}
			if kind == "l1-field-deviations" {
				y := newC16L1Sys()
				y.rich, y.dev = true, true
				return engine.Replay[*c16L1State](y, path)
			}
			if kind == "l1-no-bridge-yet" {
				y := newC16L1Sys()
				y.empty = true
				return engine.Replay[*c16L1State](y, path)
			}
			if kind == "l1-rich-root" {
				y := newC16L1Sys()
				y.rich = true
				return engine.Replay[*c16L1State](y, path)
			}
			return engine.Replay[*c16L1State](newC16L1Sys(), path)
		},
	})
}
