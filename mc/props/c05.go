package props

import (
	"bytes"
	"errors"
	"fmt"
	"sort"
	"time"

	"cosmossdk.io/collections"
	sdk "github.com/cosmos/cosmos-sdk/types"

	ophosttypes "github.com/initia-labs/OPinit/x/ophost/types"

	"verifmc/engine"
	"verifmc/ref"
	"verifmc/world"
)

// C05 — challenge window honoured, finality irreversible.

type c05State struct {
	ctx        sdk.Context
	w          *world.L1
	sys        *c05Sys
	outs       []time.Time // proposal time of the output currently stored at index i+1
	outs2      []time.Time // bridge 2 (different period): at most one output
	proposer   string
	challenger string
}

type c05Sys struct {
	period  time.Duration
	period2 time.Duration // bridge 2 has another period: a guard reading the wrong bridge's config shows
	tree    *wtree
	tree2   *wtree
}

func newC05Sys(period time.Duration) *c05Sys {
	bob := world.Addr("bob").String()
	var ws []wd
	for i := 0; i < 4; i++ {
		ws = append(ws, wd{Bridge: 1, Seq: uint64(i + 1), From: "l2user", To: bob, Denom: "uxx", Amount: 1})
	}
	p2 := 3*period + 500*time.Millisecond
	if period > time.Hour {
		p2 = 7 * time.Second
	}
	var ws2 []wd
	for i := 0; i < 2; i++ {
		ws2 = append(ws2, wd{Bridge: 2, Seq: uint64(i + 1), From: "l2user", To: bob, Denom: "uxx", Amount: 1})
	}
	return &c05Sys{period: period, period2: p2, tree: mkTree("c05", ws, 1), tree2: mkTree("c05b2", ws2, 1)}
}

type c05Propose struct{}
type c05Delete struct {
	idx uint64
	by  string
}
type c05Finalize struct{ idx uint64 }
type c05AdvanceTo struct{ t time.Time }
type c05Restart struct{}
type c05Role struct {
	role string
	to   string
}
type c05B2 struct{ op string }

var c05Deltas = []time.Duration{-time.Second, -time.Nanosecond, 0, time.Nanosecond, 999 * time.Millisecond, time.Second}

func (y *c05Sys) Root() *c05State {
	w := newL1TwoBridges(y.period)
	// re-create bridge 2's config with its own period (same roles)
	cfg2 := world.BridgeConfig("proposer", "challenger", y.period2)
	if err := w.HK.SetBridgeConfig(w.Ctx, 2, cfg2); err != nil {
		panic(err)
	}
	for b := uint64(1); b <= 2; b++ {
		res := w.Deliver(w.Ctx, ophosttypes.NewMsgInitiateTokenDeposit(world.Addr("alice").String(), b, "l2addr", world.Coin("uxx", 10), nil))
		if !res.OK() {
			panic(res.Err)
		}
	}
	return &c05State{ctx: w.Ctx, w: w, sys: y, proposer: "proposer", challenger: "challenger"}
}

// the model is part of the state key: a change that turns an operation into a no-op on the stores must
// not make the successor look like an already visited state (its model differs, and Check has to see it)
func (y *c05Sys) Digest(s *c05State) [32]byte {
	return s.w.Digest(s.ctx, []byte(fmt.Sprint(s.outs, s.outs2, s.proposer, s.challenger)))
}

func (s *c05State) addrOf(name string) string {
	if name == "gov" {
		return s.w.Authority
	}
	return world.Addr(name).String()
}

func (y *c05Sys) Letters(s *c05State) []engine.Letter {
	var ls []engine.Letter
	next := uint64(len(s.outs)) + 1
	if next <= 3 {
		ls = append(ls, engine.Letter{Name: "Propose", Data: c05Propose{}})
	}
	for i := uint64(1); i < next; i++ {
		for _, by := range []string{"challenger", "proposer", "gov", "stranger", "challenger2"} {
			ls = append(ls, engine.Letter{Name: fmt.Sprintf("Delete(%d,by=%s)", i, by), Data: c05Delete{i, by}})
		}
	}
	for i := uint64(1); i <= next && i <= 4; i++ {
		ls = append(ls, engine.Letter{Name: fmt.Sprintf("Finalize(out=%d)", i), Data: c05Finalize{i}})
	}
	if len(s.outs2) == 0 {
		ls = append(ls, engine.Letter{Name: "ProposeB2", Data: c05B2{"propose"}})
	} else {
		ls = append(ls, engine.Letter{Name: "DeleteB2(1,by=challenger)", Data: c05B2{"delete"}})
	}
	ls = append(ls, engine.Letter{Name: "FinalizeB2(out=1)", Data: c05B2{"finalize"}})
	if s.challenger == "challenger" {
		ls = append(ls, engine.Letter{Name: "UpdateChallenger(challenger2,by=gov)", Data: c05Role{"challenger", "challenger2"}})
	}
	if s.proposer == "proposer" {
		ls = append(ls, engine.Letter{Name: "UpdateProposer(proposer2,by=proposer)", Data: c05Role{"proposer", "proposer2"}})
	}
	// another rewrite of the bridge's configuration that is not about its period (once)
	if cfg, err := s.w.HK.GetBridgeConfig(s.ctx, 1); err == nil && !cfg.OracleEnabled {
		ls = append(ls, engine.Letter{Name: "UpdateOracleConfig(on,by=gov)", Data: c05Role{"oracle", ""}})
	}
	now := s.ctx.BlockTime()
	seen := map[int64]bool{}
	var ts []time.Time
	add := func(t time.Time) {
		if t.Before(now) || seen[t.UnixNano()] {
			return
		}
		seen[t.UnixNano()] = true
		ts = append(ts, t)
	}
	add(now)
	for _, tp := range s.outs {
		for _, d := range c05Deltas {
			add(tp.Add(y.period).Add(d))
		}
	}
	for _, tp := range s.outs2 {
		for _, d := range []time.Duration{-time.Second, 0} {
			add(tp.Add(y.period2).Add(d))
		}
	}
	sort.Slice(ts, func(i, j int) bool { return ts[i].Before(ts[j]) })
	for _, t := range ts {
		ls = append(ls, engine.Letter{Name: fmt.Sprintf("AdvanceTo(genesis+%dns)", t.Sub(world.L1GenesisTime).Nanoseconds()), Data: c05AdvanceTo{t}})
	}
	ls = append(ls, engine.Letter{Name: "RestartViaGenesis", Data: c05Restart{}})
	return ls
}

// definitelyNotFinal: now <= dl - 1s (the property's one-second granularity).
func (y *c05Sys) definitelyNotFinal(tp, now time.Time) bool {
	return !now.After(tp.Add(y.period).Add(-time.Second))
}

func (y *c05Sys) finals(s *c05State) ([]bool, *engine.Violation) {
	f := make([]bool, len(s.outs))
	for i := range s.outs {
		ok, err := s.w.HK.IsFinalized(s.ctx, 1, uint64(i+1))
		if err != nil {
			return nil, viol("stored-output-readable", "IsFinalized(%d): %v", i+1, err)
		}
		f[i] = ok
	}
	return f, nil
}

func (y *c05Sys) Step(s *c05State, l engine.Letter) (*c05State, string, *engine.Violation) {
	ctx, _ := s.ctx.CacheContext()
	c := &c05State{ctx: ctx, w: s.w, sys: y, outs: s.outs, outs2: s.outs2, proposer: s.proposer, challenger: s.challenger}
	fpar, v := y.finals(s)
	if v != nil {
		return c, "error", v
	}
	var stored []ophosttypes.Output
	for i := range s.outs {
		o, _ := s.w.HK.GetOutputProposal(s.ctx, 1, uint64(i+1))
		stored = append(stored, o)
	}
	outcome, v := y.apply(s, c, l, fpar)
	if v != nil {
		return c, outcome, v
	}
	// (d) irreversibility on every transition: an output observed final stays stored, identical, final
	for i, wasFinal := range fpar {
		if !wasFinal {
			continue
		}
		o, err := s.w.HK.GetOutputProposal(c.ctx, 1, uint64(i+1))
		if err != nil {
			return c, outcome, viol("final-output-is-never-deleted", "output %d was final and is gone after %s", i+1, l.Name)
		}
		if !bytes.Equal(o.OutputRoot, stored[i].OutputRoot) || !o.L1BlockTime.Equal(stored[i].L1BlockTime) || o.L2BlockNumber != stored[i].L2BlockNumber || o.L1BlockNumber != stored[i].L1BlockNumber {
			return c, outcome, viol("final-output-is-never-replaced", "output %d was final and changed after %s", i+1, l.Name)
		}
		if ok, _ := s.w.HK.IsFinalized(c.ctx, 1, uint64(i+1)); !ok {
			return c, outcome, viol("final-output-is-never-unfinalized", "output %d was final and is not final after %s", i+1, l.Name)
		}
	}
	return c, outcome, nil
}

func (y *c05Sys) apply(s, c *c05State, l engine.Letter, fpar []bool) (string, *engine.Violation) {
	ctx := c.ctx
	now := ctx.BlockTime()
	before := s.w.Digest(s.ctx)
	next := uint64(len(s.outs)) + 1
	switch d := l.Data.(type) {
	case c05AdvanceTo:
		c.ctx = ctx.WithBlockHeight(ctx.BlockHeight() + 1).WithBlockTime(d.t)
		return "ok", nil
	case c05Restart:
		if err := s.w.RestartViaGenesis(ctx); err != nil {
			return "error", viol("finality-survives-a-restart", "export / validate / import of the module genesis failed: %v", err)
		}
		return "ok", nil
	case c05Propose:
		res := s.w.Deliver(ctx, ophosttypes.NewMsgProposeOutput(world.Addr(s.proposer).String(), 1, next, uint64(ctx.BlockHeight())*10+next, y.tree.OutputRoot[:]))
		if !res.OK() {
			return "rejected", nil
		}
		c.outs = append(append([]time.Time{}, s.outs...), now)
		return "accepted", nil
	case c05B2:
		def2 := func(tp time.Time) bool { return !now.After(tp.Add(y.period2).Add(-time.Second)) }
		switch d.op {
		case "propose":
			res := s.w.Deliver(ctx, ophosttypes.NewMsgProposeOutput(world.Addr("proposer").String(), 2, 1, uint64(ctx.BlockHeight())*10, y.tree2.OutputRoot[:]))
			if !res.OK() {
				return "rejected", nil
			}
			c.outs2 = []time.Time{now}
			return "accepted", nil
		case "delete":
			res := s.w.Deliver(ctx, ophosttypes.NewMsgDeleteOutput(world.Addr("challenger").String(), 2, 1))
			if res.OK() {
				c.outs2 = nil
				return "accepted", nil
			}
			if def2(s.outs2[0]) {
				return "rejected", tagged(viol("non-final-output-can-be-deleted", "bridge 2 (period %s): delete refused at %s although the output is at least 1s before its deadline: %v", y.period2, now.Sub(world.L1GenesisTime), res.Err), "bridge", "2")
			}
			return "rejected-final", nil
		case "finalize":
			res := s.w.Deliver(ctx, y.tree2.claim(0, 1, "bob"))
			if len(s.outs2) == 0 {
				if res.OK() {
					return "accepted", viol("deleted-or-missing-output-is-unusable", "bridge 2: finalize accepted without an output")
				}
				return "rejected-no-output", nil
			}
			gate := res.OK() || !(errors.Is(res.Err, ophosttypes.ErrNotFinalized) || errors.Is(res.Err, collections.ErrNotFound))
			if gate && def2(s.outs2[0]) {
				return "gate-passed", tagged(viol("no-finalization-before-the-window", "bridge 2 (period %s, bridge 1 has %s): finalize passed the finality gate at %s; proposed at %s",
					y.period2, y.period, now.Sub(world.L1GenesisTime), s.outs2[0].Sub(world.L1GenesisTime)), "bridge", "2")
			}
			if res.OK() {
				return "accepted", nil
			}
			return "refused", nil
		}
		panic("bad b2 op")
	case c05Role:
		var res world.DeliverResult
		if d.role == "oracle" {
			res = s.w.Deliver(ctx, ophosttypes.NewMsgUpdateOracleConfig(s.w.Authority, 1, true))
		} else if d.role == "challenger" {
			res = s.w.Deliver(ctx, ophosttypes.NewMsgUpdateChallenger(s.w.Authority, 1, world.Addr(d.to).String()))
			if res.OK() {
				c.challenger = d.to
			}
		} else {
			res = s.w.Deliver(ctx, ophosttypes.NewMsgUpdateProposer(world.Addr(s.proposer).String(), 1, world.Addr(d.to).String()))
			if res.OK() {
				c.proposer = d.to
			}
		}
		if !res.OK() {
			return "rejected", nil
		}
		return "accepted", nil
	case c05Delete:
		res := s.w.Deliver(ctx, ophosttypes.NewMsgDeleteOutput(s.addrOf(d.by), 1, d.idx))
		authorised := d.by == "gov" || d.by == s.proposer || d.by == s.challenger
		allDefNotFinal, anyObservedFinal := true, false
		for j := d.idx; j < next; j++ {
			if !y.definitelyNotFinal(s.outs[j-1], now) {
				allDefNotFinal = false
			}
			if fpar[j-1] {
				anyObservedFinal = true
			}
		}
		if res.OK() {
			if !authorised {
				return "accepted", viol("delete-needs-role", "delete by %s accepted (proposer=%s challenger=%s)", d.by, s.proposer, s.challenger)
			}
			if anyObservedFinal {
				return "accepted", viol("final-output-is-never-deleted", "delete(%d) accepted although IsFinalized reports a final output in [%d,%d)", d.idx, d.idx, next)
			}
			c.outs = append([]time.Time{}, s.outs[:d.idx-1]...)
			return "accepted", nil
		}
		if res.Panicked {
			return "panic", viol("handler-panic", "DeleteOutput panicked: %s", res.PanicVal)
		}
		if s.w.Digest(ctx) != before {
			return "rejected", viol("rejected-message-has-no-effect", "rejected delete changed state: %v", res.Err)
		}
		if authorised && allDefNotFinal {
			return "rejected", viol("non-final-output-can-be-deleted", "delete(%d) by %s refused at %s although every output in range is at least 1s before its deadline: %v", d.idx, d.by, now.Sub(world.L1GenesisTime), res.Err)
		}
		if authorised && !anyObservedFinal {
			return "rejected", viol("delete-guard-agrees-with-isfinalized", "delete(%d) by %s refused although IsFinalized reports no final output in range: %v", d.idx, d.by, res.Err)
		}
		if authorised {
			return "rejected-final", nil
		}
		return "rejected-unauthorised", nil
	case c05Finalize:
		msg := y.tree.claim(int(d.idx-1), d.idx, "bob")
		res := s.w.Deliver(ctx, msg)
		if d.idx >= next {
			if res.OK() {
				return "accepted", viol("deleted-or-missing-output-is-unusable", "finalize against index %d accepted with next index %d", d.idx, next)
			}
			if s.w.Digest(ctx) != before {
				return "rejected", viol("rejected-message-has-no-effect", "rejected finalize changed state")
			}
			return "rejected-no-output", nil
		}
		gatePassed := res.OK() || !(errors.Is(res.Err, ophosttypes.ErrNotFinalized) || errors.Is(res.Err, collections.ErrNotFound))
		if res.Panicked {
			return "panic", viol("handler-panic", "FinalizeTokenWithdrawal panicked: %s", res.PanicVal)
		}
		tp := s.outs[d.idx-1]
		if gatePassed && y.definitelyNotFinal(tp, now) {
			return "gate-passed", tagged(viol("no-finalization-before-the-window", "finalize against output %d passed the finality gate at %s; proposed at %s, period %s",
				d.idx, now.Sub(world.L1GenesisTime), tp.Sub(world.L1GenesisTime), y.period), "period", y.period.String())
		}
		if gatePassed != fpar[d.idx-1] {
			return "inconsistent", viol("finalize-gate-agrees-with-isfinalized", "finalize gate passed=%v but IsFinalized=%v for output %d", gatePassed, fpar[d.idx-1], d.idx)
		}
		if !res.OK() && s.w.Digest(ctx) != before {
			return "rejected", viol("rejected-message-has-no-effect", "rejected finalize changed state: %v", res.Err)
		}
		if res.OK() {
			return "accepted", nil
		}
		if gatePassed {
			return "rejected-after-gate", nil
		}
		if !now.Before(tp.Add(y.period)) {
			return "refused-at-or-after-deadline", nil
		}
		return "refused-not-final", nil
	}
	panic("unknown letter")
}

func (y *c05Sys) Check(s *c05State) *engine.Violation {
	now := s.ctx.BlockTime()
	f, v := y.finals(s)
	if v != nil {
		return v
	}
	last := uint64(0)
	gap := false
	for i, tp := range s.outs {
		o, err := s.w.HK.GetOutputProposal(s.ctx, 1, uint64(i+1))
		if err != nil || !o.L1BlockTime.Equal(tp) {
			return viol("clock-starts-at-current-proposal", "output %d stores time %v, proposed at %v (err=%v)", i+1, o.L1BlockTime, tp, err)
		}
		if f[i] && y.definitelyNotFinal(tp, now) {
			return tagged(viol("no-finalization-before-the-window", "IsFinalized(%d) is true at %s; proposed at %s, period %s", i+1, now.Sub(world.L1GenesisTime), tp.Sub(world.L1GenesisTime), y.period), "period", y.period.String())
		}
		if f[i] {
			if gap {
				return viol("final-outputs-form-a-prefix", "output %d final after a non-final one", i+1)
			}
			last = uint64(i + 1)
		} else {
			gap = true
		}
	}
	{
		f2 := false
		if len(s.outs2) == 1 {
			var err error
			f2, err = s.w.HK.IsFinalized(s.ctx, 2, 1)
			if err != nil {
				return viol("stored-output-readable", "bridge 2: %v", err)
			}
			if f2 && !now.After(s.outs2[0].Add(y.period2).Add(-time.Second)) {
				return tagged(viol("no-finalization-before-the-window", "bridge 2 (period %s): IsFinalized(1) true at %s; proposed at %s", y.period2, now.Sub(world.L1GenesisTime), s.outs2[0].Sub(world.L1GenesisTime)), "bridge", "2")
			}
		}
		// also with no output of its own (the query must not wander into another bridge's log)
		r2, err := s.w.Q.LastFinalizedOutput(s.ctx, &ophosttypes.QueryLastFinalizedOutputRequest{BridgeId: 2})
		want := uint64(0)
		if f2 {
			want = 1
		}
		if err != nil || r2.OutputIndex != want {
			return tagged(viol("last-finalized-query-names-highest-final", "bridge 2: LastFinalizedOutput=%v, expected %d (err=%v)", r2, want, err), "bridge", "2")
		}
	}
	resp, err := s.w.Q.LastFinalizedOutput(s.ctx, &ophosttypes.QueryLastFinalizedOutputRequest{BridgeId: 1})
	if err != nil {
		return viol("last-finalized-query-names-highest-final", "query failed: %v", err)
	}
	if resp.OutputIndex != last {
		return viol("last-finalized-query-names-highest-final", "LastFinalizedOutput=%d, highest final index=%d (finals=%v)", resp.OutputIndex, last, f)
	}
	br, err := s.w.Q.Bridge(s.ctx, &ophosttypes.QueryBridgeRequest{BridgeId: 1})
	if err != nil || br.BridgeConfig.FinalizationPeriod != y.period {
		return viol("finalization-period-never-changes", "stored period %v, configured %v (err=%v)", br.BridgeConfig.FinalizationPeriod, y.period, err)
	}
	return nil
}

// c05PeriodMenu is the configuration axis offered at bridge creation.
var c05PeriodMenu = []time.Duration{-time.Second, -time.Nanosecond, 0, time.Nanosecond, 999 * time.Millisecond, time.Second, 1500 * time.Millisecond, 10 * time.Second, 1 << 62, 1<<63 - 1}

func c05CreateProbes(res *engine.Result, known func(*engine.Violation) (string, bool)) {
	w := world.NewL1(world.L1Options{Accounts: map[string]sdk.Coins{"creator": nil, "proposer": nil, "challenger": nil, "submitter": nil}})
	accepted := 0
	for _, p := range c05PeriodMenu {
		ctx, _ := w.Ctx.CacheContext()
		before := w.Digest(ctx)
		r := w.Deliver(ctx, ophosttypes.NewMsgCreateBridge(world.Addr("creator").String(), world.BridgeConfig("proposer", "challenger", p)))
		name := fmt.Sprintf("CreateBridge(period=%s)", p)
		var v *engine.Violation
		if r.OK() {
			accepted++
			if p <= 0 {
				v = tagged(viol("accepted-bridge-has-positive-period", "bridge with finalization period %s accepted", p), "period-sign", "negative")
			}
			// every accepted period is honoured from the first moment: an output proposed now is not final
			// now (nor one second before its window ends, where that moment can be reached), the query names
			// no final output, a claim is refused and the challenger can still delete it
			if id := r.Resp.(*ophosttypes.MsgCreateBridgeResponse).BridgeId; p > time.Second && v == nil {
				root := ref.Sum256([]byte("c05 create probe"))
				if pr := w.Deliver(ctx, ophosttypes.NewMsgProposeOutput(world.Addr("proposer").String(), id, 1, 5, root[:])); !pr.OK() {
					v = viol("harness-expectation", "propose on the new bridge failed: %v", pr.Err)
				} else {
					at := []sdk.Context{ctx}
					if p < 1<<61 {
						at = append(at, world.Advance(ctx, p-time.Second-time.Nanosecond))
					}
					for _, c := range at {
						if fin, err := w.HK.IsFinalized(c, id, 1); err != nil || fin {
							v = tagged(viol("no-finalization-before-the-window", "period %s: an output proposed at %s counts as final at %s (err=%v)", p, ctx.BlockTime().Sub(world.L1GenesisTime), c.BlockTime().Sub(world.L1GenesisTime), err), "period", p.String())
						}
						if lf, err := w.Q.LastFinalizedOutput(c, &ophosttypes.QueryLastFinalizedOutputRequest{BridgeId: id}); err == nil && lf.OutputIndex != 0 && v == nil {
							v = tagged(viol("last-finalized-query-names-highest-final-index", "period %s: LastFinalizedOutput names index %d inside the window", p, lf.OutputIndex), "period", p.String())
						}
						dctx, _ := c.CacheContext()
						if dr := w.Deliver(dctx, ophosttypes.NewMsgDeleteOutput(world.Addr("challenger").String(), id, 1)); !dr.OK() && v == nil {
							v = tagged(viol("non-final-output-can-be-deleted", "period %s: delete refused inside the window: %v", p, dr.Err), "period", p.String())
						}
					}
				}
			}
		} else if w.Digest(ctx) != before {
			v = viol("rejected-message-has-no-effect", "rejected CreateBridge changed state")
		}
		res.AddSample(map[string]any{"probe": name, "accepted": r.OK()})
		if v != nil {
			v.Path = []string{name}
			v.Tags["search"] = "create"
			if id, ok := known(v); ok {
				res.KnownHits[id]++
				res.KnownWit[id] = v
			} else {
				res.Violations = append(res.Violations, v)
			}
		}
		// genesis validation must agree
		g := ophosttypes.DefaultGenesisState()
		cfg := world.BridgeConfig("proposer", "challenger", p)
		g.Bridges = []ophosttypes.Bridge{{BridgeId: 1, NextL1Sequence: 1, NextOutputIndex: 1, BridgeConfig: cfg, BatchInfos: []ophosttypes.BatchInfoWithOutput{{BatchInfo: cfg.BatchInfo}}}}
		g.NextBridgeId = 2
		if err := ophosttypes.ValidateGenesis(g, w.AK.AddressCodec()); err == nil && p <= 0 {
			v := tagged(viol("accepted-bridge-has-positive-period", "genesis with finalization period %s validates", p), "period-sign", "negative", "search", "create")
			v.Path = []string{fmt.Sprintf("ValidateGenesis(period=%s)", p)}
			if id, ok := known(v); ok {
				res.KnownHits[id]++
				res.KnownWit[id] = v
			} else {
				res.Violations = append(res.Violations, v)
			}
		}
	}
	res.Coverage["create_probes"] = len(c05PeriodMenu) * 2
	res.Coverage["create_accepted"] = accepted
}

func c05Periods(rc *engine.RunCtx) []time.Duration {
	if rc.Thorough() {
		return []time.Duration{time.Nanosecond, 999 * time.Millisecond, time.Second, 1500 * time.Millisecond, 10 * time.Second, 1 << 62}
	}
	return []time.Duration{999 * time.Millisecond, 1500 * time.Millisecond, 10 * time.Second}
}

func init() {
	register(&Check{ID: "C05", Level: "model_checking",
		Run: func(rc *engine.RunCtx) *engine.Result {
			res := engine.NewResult()
			c05CreateProbes(res, rc.Known.Matcher(rc.Property))
			periods := c05Periods(rc)
			for i, p := range periods {
				o := opts(rc, pick(rc, 6, 8))
				// split the budget over the period menu
				o.Deadline = rc.Start.Add(rc.Budget * time.Duration(i+1) / time.Duration(len(periods)))
				name := "period=" + p.String()
				rep, err := engine.Explore[*c05State](newC05Sys(p), o)
				if err != nil {
					res.HarnessErr = err
					return res
				}
				res.Absorb(name, rep)
				for _, k := range []string{"Finalize/accepted", "Finalize/refused-not-final", "Delete/accepted", "Delete/rejected-final", "Propose/accepted"} {
					if p < time.Millisecond && (k == "Finalize/refused-not-final" || k == "Delete/accepted") {
						continue // with a period far below the one-second granularity an output is final at once
					}
					res.Require(res.OutcomeCount(name, k) > 0, "%s: outcome %s never occurred", name, k)
				}
			}
			res.Coverage["alphabet"] = "Propose(next≤3); Delete(i<next, by∈{challenger,proposer,gov,stranger,challenger2}); Finalize(valid claim of leaf i against output i, i≤next); UpdateChallenger; UpdateProposer; AdvanceTo(t) for t ∈ {now} ∪ {t_p+period+δ | stored output, δ∈{-1s,-1ns,0,+1ns,+999ms,+1s}}"
			res.Coverage["oracle"] = "(a) gate passed ⇒ now > dl-1s; (b) now ≤ dl-1s ⇒ finalize refused, authorised delete succeeds; (c) finalize gate, delete guard, IsFinalized, LastFinalizedOutput agree; (d) a final output stays stored, identical and final across every transition; (e) clock = time of the current proposal, missing index unusable; (f) stored period constant; CreateBridge/ValidateGenesis accept only positive periods"
			res.Assumptions = []string{"time lines are represented by the deadline-region menu (between two consecutive menu instants no guard changes value)", "at most 3 live outputs"}
			return res
		},
		Replay: func(kind string, path []string) ([]string, *engine.Violation, error) {
			if kind == "create" {
				res := engine.NewResult()
				c05CreateProbes(res, func(*engine.Violation) (string, bool) { return "", false })
				for _, v := range res.Violations {
					if len(v.Path) == 1 && len(path) == 1 && v.Path[0] == path[0] {
						return []string{"accepted"}, v, nil
					}
				}
				return nil, nil, nil
			}
			var p time.Duration
			for _, q := range c05PeriodMenu {
				if "period="+q.String() == kind {
					p = q
				}
			}
			if p == 0 {
				return nil, nil, fmt.Errorf("unknown replay kind %q", kind)
			}
			return engine.Replay[*c05State](newC05Sys(p), path)
		},
	})
}
