package props

import (
	"fmt"
	"time"

	"verifmc/engine"
)

// C13 — L2 validator set in state always equals what the consensus engine was told.

var vsGenesisMenu = map[string][][2]string{
	"genesis={o1k1}":      {{"o1", "k1"}},
	"genesis={o1k1,o2k2}": {{"o1", "k1"}, {"o2", "k2"}},
}
var vsGenesisOrder = []string{"genesis={o1k1}", "genesis={o1k1,o2k2}", vsUpperGenesis, vsSecpChain}

// a chain whose consensus parameters list secp256k1 next to ed25519: keys k1 (ed25519), s2, s3 (secp256k1)
const vsSecpChain = "genesis={o1k1}, consensus keys of both types"

// the operator addresses of this genesis are spelled in upper-case bech32 (legal, stored as written)
const vsUpperGenesis = "genesis={O1k1,O2k2} in upper case"

func vsSysFor(name string) *vsSys {
	if name == vsUpperGenesis {
		return &vsSys{genesis: vsGenesisMenu["genesis={o1k1,o2k2}"], upper: true}
	}
	if name == vsSecpChain {
		return &vsSys{genesis: vsGenesisMenu["genesis={o1k1}"], secp: true}
	}
	return &vsSys{genesis: vsGenesisMenu[name]}
}

func init() {
	register(&Check{ID: "C13", Level: "model_checking",
		Run: func(rc *engine.RunCtx) *engine.Result {
			res := engine.NewResult()
			for i, name := range vsGenesisOrder {
				o := opts(rc, pick(rc, 6, 8))
				if name == vsUpperGenesis || name == vsSecpChain {
					o = opts(rc, pick(rc, 4, 6))
				}
				o.Deadline = time.Now().Add(time.Until(rc.Deadline()) / time.Duration(len(vsGenesisOrder)-i))
				rep, err := engine.Explore[*vsState](vsSysFor(name), o)
				if err != nil {
					res.HarnessErr = err
					return res
				}
				res.Absorb(name, rep)
				if name == vsUpperGenesis || name == vsSecpChain {
					continue
				}
				for _, k := range []string{"AddValidator/accepted", "AddValidator/rejected", "RemoveValidator/accepted", "NextBlock/ok", "UpdateParams/accepted", "UpdateParams/rejected"} {
					res.Require(res.OutcomeCount(name, k) > 0, "%s: outcome %s never occurred", name, k)
				}
			}
			res.Coverage["alphabet"] = "AddValidator(o∈{o1,o2,o3}, k∈{k1,k2,k3}) (all 9, so a key under another operator occurs); RemoveValidator(o); UpdateParams(MaxValidators∈{1,2,3} | HistoricalEntries∈{0,1,2}); NextBlock (= real EndBlocker, CometBFT ValidatorSet.UpdateWithChangeSet, height+1, real BeginBlocker); genesis ∈ {{o1k1},{o1k1,o2k2}, the latter with its operator addresses spelled in upper-case bech32} through the real InitGenesis; a fourth configuration runs on a chain whose consensus parameters list secp256k1 next to ed25519, with keys k1 (ed25519), s2, s3 (secp256k1) and a third operator whose address is 32 bytes long"
			res.Coverage["oracle"] = "at every block boundary: EndBlock/BeginBlock neither fail nor panic; batch has no key twice, no removal of an unknown key, no negative power and is accepted by a real CometBFT ValidatorSet mirror; mirror = positive-power validators = LastValidatorPowers; bonded ≤ MaxValidators; removed validators are gone from Query/Validators; historical record at the new height exists iff HistoricalEntries>0, lists exactly the bonded set, and (constant retention) heights ⊆ (h-entries,h]; in every state operator and consensus-key indexes are one-to-one with the stored validators (raw store and queries)"
			res.Assumptions = []string{"removing the last bonded validator is classified separately (engine-rejected-empty-set): the property's acceptance clause lists three conditions and an empty set is not among them", fmt.Sprintf("3 operators, 3 keys, depth %d", pick(rc, 6, 8))}
			return res
		},
		Replay: func(kind string, path []string) ([]string, *engine.Violation, error) {
			if _, ok := vsGenesisMenu[kind]; !ok && kind != vsUpperGenesis && kind != vsSecpChain {
				return nil, nil, fmt.Errorf("unknown replay kind %q", kind)
			}
			return engine.Replay[*vsState](vsSysFor(kind), path)
		},
	})
}
