package props

import (
	"bytes"
	"fmt"
	"sort"
	"strings"

	sdk "github.com/cosmos/cosmos-sdk/types"
	authtypes "github.com/cosmos/cosmos-sdk/x/auth/types"
	banktypes "github.com/cosmos/cosmos-sdk/x/bank/types"

	opchildtypes "github.com/initia-labs/OPinit/x/opchild/types"

	"verifmc/world"
)

// frameL2 is a frame condition on the raw stores of the L2 world: everything that differs between
// `before` and `after` must be named by `allowed`. It returns the (sorted, de-duplicated) descriptions of
// the changes nobody allowed. Key classes are described in words so that a violation message is readable
// and stable across address changes.
type frameL2 struct {
	// balances and supply of these denoms may change for these accounts (name -> address)
	accounts map[string]sdk.AccAddress
	denoms   []string
	// opchild keys that may change
	nextL1, nextL2 bool
	pairOf         []string // denoms whose pair / bank metadata may be registered (created, never altered)
	// auth: accounts whose sequence / first-use public key may change
	sequenceOf []sdk.AccAddress
}

func (f frameL2) violations(w *world.L2, before, after sdk.Context) []string {
	var out []string
	for _, ch := range world.RawDiff(before, after, w.StoreKeys) {
		if d := f.classify(w, before, after, ch); d != "" {
			out = append(out, d)
		}
	}
	sort.Strings(out)
	return slicesCompact(out)
}

func (f frameL2) hasDenom(key []byte) string {
	for _, d := range f.denoms {
		if bytes.Contains(key, []byte(d)) {
			return d
		}
	}
	return ""
}

func (f frameL2) classify(w *world.L2, before, after sdk.Context, ch world.RawChange) string {
	k := ch.Key
	switch ch.Store {
	case banktypes.StoreKey:
		switch {
		case bytes.HasPrefix(k, banktypes.SupplyKey.Bytes()):
			if f.hasDenom(k) != "" {
				return ""
			}
			return fmt.Sprintf("bank: supply of %s", strings.TrimLeft(string(k[1:]), "\x00"))
		case bytes.HasPrefix(k, banktypes.BalancesPrefix.Bytes()), bytes.HasPrefix(k, banktypes.DenomAddressPrefix.Bytes()):
			if f.hasDenom(k) != "" {
				for _, a := range f.accounts {
					if bytes.Contains(k, a) {
						return ""
					}
				}
			}
			return fmt.Sprintf("bank: balance record %x", k)
		case bytes.HasPrefix(k, banktypes.DenomMetadataPrefix.Bytes()):
			for _, d := range f.pairOf {
				if bytes.Contains(k, []byte(d)) && ch.Was == nil {
					return ""
				}
			}
			return fmt.Sprintf("bank: denom metadata %q", string(k[1:]))
		}
		return fmt.Sprintf("bank: key %x", k)
	case opchildtypes.StoreKey:
		switch {
		case bytes.Equal(k, opchildtypes.NextL1SequenceKey):
			if f.nextL1 {
				return ""
			}
			return "opchild: next L1 sequence"
		case bytes.Equal(k, opchildtypes.NextL2SequenceKey):
			if f.nextL2 {
				return ""
			}
			return "opchild: next L2 sequence"
		case bytes.HasPrefix(k, opchildtypes.DenomPairPrefix):
			for _, d := range f.pairOf {
				if bytes.Contains(k, []byte(d)) && ch.Was == nil {
					return ""
				}
			}
			return fmt.Sprintf("opchild: denom pair %q", string(k[1:]))
		}
		return fmt.Sprintf("opchild: key %x", k)
	case authtypes.StoreKey:
		for _, a := range f.sequenceOf {
			if !bytes.Contains(k, a) || ch.Was == nil || ch.Now == nil {
				continue
			}
			ha, hb := w.AK.GetAccount(before, a), w.AK.GetAccount(after, a)
			if err := hb.SetSequence(ha.GetSequence()); err != nil {
				panic(err)
			}
			if ha.GetPubKey() == nil && hb.GetPubKey() != nil {
				if err := ha.SetPubKey(hb.GetPubKey()); err != nil {
					panic(err)
				}
			}
			ba, _ := w.Enc.Marshaler.MarshalInterface(ha)
			bb, _ := w.Enc.Marshaler.MarshalInterface(hb)
			if bytes.Equal(ba, bb) {
				return ""
			}
			return "auth: an account changed beyond its sequence"
		}
		return fmt.Sprintf("auth: key %x", k)
	}
	return fmt.Sprintf("%s: key %x", ch.Store, k)
}
