package props

import (
	"bytes"
	"encoding/binary"
	"fmt"
	"sort"
	"sync/atomic"
	"time"

	"cosmossdk.io/math"

	sdk "github.com/cosmos/cosmos-sdk/types"
	authtypes "github.com/cosmos/cosmos-sdk/x/auth/types"
	banktypes "github.com/cosmos/cosmos-sdk/x/bank/types"

	ophosttypes "github.com/initia-labs/OPinit/x/ophost/types"

	"verifmc/engine"
	"verifmc/ref"
	"verifmc/world"
)

// C01 — L1 escrow conservation and per-bridge isolation.

const c01Period = 10 * time.Second

var c01Denoms = []string{"uxx", "uyy"}
var c01Accounts = []string{"alice", "bob", "stranger", "creator", "escrow1", "escrow2", "escrow9", "pool"}

type c01Out struct {
	Root string
	T    time.Time
}

type c01State struct {
	ctx  sdk.Context
	w    *world.L1
	sys  *c01Sys
	bal  map[string]int64 // "account/denom" -> ledger
	outs [2][]c01Out
	b2   bool // bridge 2 exists
	b3   bool // bridge 3 exists (created after bridge 2; nothing else is ever addressed to it)
	rot  [2][2]bool
	// non-empty: building the start state failed (a funded creator could not open the first bridge)
	setup string
}

type c01Sys struct {
	fee    bool
	trees  [2]*wtree
	forged atomic.Int64
}

func newC01Sys(fee bool) *c01Sys {
	y := &c01Sys{fee: fee}
	bob := world.Addr("bob").String()
	for b := uint64(1); b <= 2; b++ {
		ws := []wd{
			{Bridge: b, Seq: 1, From: "l2user", To: bob, Denom: "uxx", Amount: 1},
			{Bridge: b, Seq: 2, From: "l2user", To: bob, Denom: "uxx", Amount: 2},
		}
		y.trees[b-1] = mkTree(fmt.Sprintf("T%d", b), ws, 0)
	}
	return y
}

func c01Addr(name string) sdk.AccAddress {
	switch name {
	case "escrow1":
		return ref.BridgeAddress(1)
	case "escrow2":
		return ref.BridgeAddress(2)
	case "escrow9":
		return ref.BridgeAddress(9)
	}
	return world.Addr(name)
}

type c01Create struct{}
type c01Deposit struct {
	b      uint64
	denom  string
	amt    int64
	sender string
}
type c01Propose struct {
	b    uint64
	tree int // index of tree whose root is proposed
}
type c01Delete struct{ b uint64 }
type c01Advance struct{}
type c01Finalize struct {
	b    uint64
	tree int
	leaf int
	by   string
}
type c01Send struct{ b uint64 }
type c01Restart struct{}
type c01Role struct {
	b    uint64
	role int // 0 proposer 1 challenger
}

func (y *c01Sys) Root() *c01State {
	opt := world.L1Options{Accounts: map[string]sdk.Coins{
		"proposer": nil, "challenger": nil, "submitter": nil, "proposer2": nil, "challenger2": nil, "bob": nil,
		"creator":  sdk.NewCoins(world.Coin("uxx", 5)),
		"stranger": sdk.NewCoins(world.Coin("uxx", 3)),
		"alice":    sdk.NewCoins(world.Coin("uxx", 10), world.Coin("uyy", 10)),
	}}
	if y.fee {
		opt.RegistrationFee = sdk.NewCoins(world.Coin("uxx", 1))
	}
	w := world.NewL1(opt)
	// governance has switched plain transfers of uyy off (x/bank's per-denom send switch): bridge deposits
	// and payouts are not plain transfers and must still move exactly what they announce
	w.BK.SetSendEnabled(w.Ctx, "uyy", false)
	res := w.Deliver(w.Ctx, ophosttypes.NewMsgCreateBridge(world.Addr("creator").String(), world.BridgeConfig("proposer", "challenger", c01Period)))
	s := &c01State{ctx: w.Ctx, w: w, sys: y, bal: map[string]int64{}}
	if !res.OK() {
		// reported by Check: a funded creator could not open the first bridge
		s.setup = res.Err.Error()
		return s
	}
	for _, a := range c01Accounts {
		if a == "pool" {
			for _, d := range c01Denoms {
				s.bal[a+"/"+d] = balanceOf(w, w.Ctx, w.PoolAddr, d)
			}
			continue
		}
		for _, d := range c01Denoms {
			s.bal[a+"/"+d] = balanceOf(w, w.Ctx, c01Addr(a), d)
		}
	}
	return s
}

// the model is part of the state key: a change that turns an operation into a no-op on the stores must
// not make the successor look like an already visited state (its model differs, and Check has to see it)
func (y *c01Sys) Digest(s *c01State) [32]byte {
	return s.w.Digest(s.ctx, []byte(fmt.Sprint(s.bal, s.outs, s.b2, s.b3)))
}

func (y *c01Sys) Letters(s *c01State) []engine.Letter {
	var ls []engine.Letter
	if !s.b3 {
		ls = append(ls, engine.Letter{Name: "CreateBridge", Data: c01Create{}})
	}
	for _, b := range []uint64{1, 2, 9} {
		for _, den := range c01Denoms {
			for _, amt := range []int64{1, 2} {
				ls = append(ls, engine.Letter{Name: fmt.Sprintf("Deposit(b%d,%d%s)", b, amt, den), Data: c01Deposit{b, den, amt, "alice"}})
			}
		}
	}
	ls = append(ls, engine.Letter{Name: "Deposit(b1,0uxx)", Data: c01Deposit{1, "uxx", 0, "alice"}})
	ls = append(ls, engine.Letter{Name: "Deposit(b1,1uyy,by=unfunded)", Data: c01Deposit{1, "uyy", 1, "stranger"}})
	for b := uint64(1); b <= 2; b++ {
		for t := 0; t < 2; t++ {
			ls = append(ls, engine.Letter{Name: fmt.Sprintf("Propose(b%d,root=T%d)", b, t+1), Data: c01Propose{b, t}})
		}
		for t := 0; t < 2; t++ {
			for leaf := 0; leaf < 2; leaf++ {
				if t != int(b-1) && leaf == 1 {
					continue // one cross-bridge leaf is enough
				}
				for _, by := range []string{"bob", "stranger"} {
					ls = append(ls, engine.Letter{Name: fmt.Sprintf("Finalize(b%d,leaf=T%d.w%d,by=%s)", b, t+1, leaf+1, by), Data: c01Finalize{b, t, leaf, by}})
				}
			}
		}
		// (the roll-back is offered after the claims: a state's claims are then tried by keepers that have
		// last served whatever the search visited before, not a roll-back of this very output)
		ls = append(ls, engine.Letter{Name: fmt.Sprintf("Delete(b%d,1)", b), Data: c01Delete{b}})
		for role := 0; role < 2; role++ {
			if !s.rot[b-1][role] {
				ls = append(ls, engine.Letter{Name: fmt.Sprintf("UpdateRole(b%d,%s)", b, []string{"proposer", "challenger"}[role]), Data: c01Role{b, role}})
			}
		}
	}
	ls = append(ls, engine.Letter{Name: "Advance(10s)", Data: c01Advance{}})
	// plain transfers by a third party: to an existing escrow, and to the addresses that bridges which do
	// not exist (yet) would have — receiving coins creates a bank account there, nothing more
	for _, b := range []uint64{1, 2, 9} {
		ls = append(ls, engine.Letter{Name: fmt.Sprintf("BankSend(stranger->escrow%d,1uxx)", b), Data: c01Send{b}})
	}
	ls = append(ls, engine.Letter{Name: "RestartViaGenesis", Data: c01Restart{}})
	return ls
}

// bridgeSlice returns the raw ophost-store entries that belong to bridge id (all per-bridge
// collections are keyed prefix ‖ be64(id) ‖ ...), plus its escrow balances.
func (s *c01State) bridgeSlice(ctx sdk.Context, id uint64) []byte {
	var buf bytes.Buffer
	it := ctx.KVStore(s.w.StoreKeys[2]).Iterator(nil, nil)
	for ; it.Valid(); it.Next() {
		k := it.Key()
		if len(k) >= 9 && k[0] >= 0x21 && binary.BigEndian.Uint64(k[1:9]) == id {
			buf.Write(k)
			buf.WriteByte(0)
			buf.Write(it.Value())
			buf.WriteByte(0)
		}
	}
	it.Close()
	buf.WriteString(s.w.BK.GetAllBalances(ctx, ref.BridgeAddress(id)).String())
	return buf.Bytes()
}

func (y *c01Sys) Step(s *c01State, l engine.Letter) (*c01State, string, *engine.Violation) {
	ctx, _ := s.ctx.CacheContext()
	c := &c01State{ctx: ctx, w: s.w, sys: y, bal: s.bal, outs: s.outs, b2: s.b2, b3: s.b3, rot: s.rot}
	nb := func() map[string]int64 {
		m := make(map[string]int64, len(s.bal))
		for k, v := range s.bal {
			m[k] = v
		}
		c.bal = m
		return m
	}
	before := s.w.Digest(s.ctx)
	var slices [4][]byte
	ids := []uint64{1, 2, 3, 9}
	for i, id := range ids {
		slices[i] = s.bridgeSlice(s.ctx, id)
	}
	addressed := uint64(0)
	isFinalizeOK := false
	outcome := ""
	var res world.DeliverResult
	switch d := l.Data.(type) {
	case c01Advance:
		c.ctx = world.Advance(ctx, c01Period)
		return c, "ok", nil
	case c01Restart:
		// (a restart materialises default counters, so the raw per-bridge slices are not compared here;
		// whatever it loses or mixes up between bridges shows in the steps that follow)
		if err := s.w.RestartViaGenesis(ctx); err != nil {
			return c, "error", viol("bridge-records-survive-a-restart", "export / validate / import of the module genesis failed: %v", err)
		}
		return c, "ok", nil
	case c01Create:
		res = s.w.Deliver(ctx, ophosttypes.NewMsgCreateBridge(world.Addr("creator").String(), world.BridgeConfig("proposer", "challenger", c01Period)))
		addressed = 2
		if s.b2 {
			addressed = 3 // the second creation makes bridge 3 and leaves bridge 2 as it is
		}
		if res.OK() {
			if r, ok := res.Resp.(*ophosttypes.MsgCreateBridgeResponse); !ok || r.BridgeId != addressed {
				return c, "accepted", viol("operation-on-one-bridge-leaves-others-untouched", "the bridge created after %d bridges got id %v, expected %d", addressed-1, res.Resp, addressed)
			}
			if s.b2 {
				c.b3 = true
			}
			c.b2 = true
			if y.fee {
				m := nb()
				m["creator/uxx"]--
				m["pool/uxx"]++
			}
		}
	case c01Deposit:
		res = s.w.Deliver(ctx, ophosttypes.NewMsgInitiateTokenDeposit(world.Addr(d.sender).String(), d.b, "l2addr", world.Coin(d.denom, d.amt), nil))
		addressed = d.b
		if res.OK() && !(d.b == 1 || (d.b == 2 && s.b2)) {
			return c, "accepted", viol("deposit-needs-an-existing-bridge", "%s was accepted although bridge %d does not exist: the bridge created under that id later starts with a pre-loaded escrow and a used sequence", l.Name, d.b)
		}
		if res.OK() {
			m := nb()
			m[d.sender+"/"+d.denom] -= d.amt
			m[fmt.Sprintf("escrow%d/%s", d.b, d.denom)] += d.amt
		}
	case c01Propose:
		next := uint64(len(s.outs[d.b-1])) + 1
		res = s.w.Deliver(ctx, ophosttypes.NewMsgProposeOutput(world.Addr("proposer").String(), d.b, next, uint64(ctx.BlockHeight())*10+next, y.trees[d.tree].OutputRoot[:]))
		addressed = d.b
		if res.OK() {
			c.outs[d.b-1] = append(append([]c01Out{}, s.outs[d.b-1]...), c01Out{y.trees[d.tree].Name, ctx.BlockTime()})
		}
	case c01Delete:
		res = s.w.Deliver(ctx, ophosttypes.NewMsgDeleteOutput(world.Addr("challenger").String(), d.b, 1))
		addressed = d.b
		if res.OK() {
			c.outs[d.b-1] = nil
		}
	case c01Role:
		if d.role == 0 {
			res = s.w.Deliver(ctx, ophosttypes.NewMsgUpdateProposer(s.w.Authority, d.b, world.Addr("proposer").String()))
		} else {
			res = s.w.Deliver(ctx, ophosttypes.NewMsgUpdateChallenger(s.w.Authority, d.b, world.Addr("challenger").String()))
		}
		addressed = d.b
		if res.OK() {
			c.rot[d.b-1][d.role] = true
		}
	case c01Send:
		res = s.w.Deliver(ctx, banktypes.NewMsgSend(world.Addr("stranger"), ref.BridgeAddress(d.b), sdk.NewCoins(world.Coin("uxx", 1))))
		addressed = d.b // a plain transfer to an escrow address changes only that address's balance
		if res.OK() {
			m := nb()
			m["stranger/uxx"]--
			m[fmt.Sprintf("escrow%d/uxx", d.b)]++
		}
	case c01Finalize:
		t := y.trees[d.tree]
		w := t.Ws[d.leaf]
		w.Bridge = d.b // the message names bridge d.b; proof and roots come from tree t
		msg := claimMsg(w, t.Tree.Proof(d.leaf), 1, d.by, t.Version, t.StorageRoot[:], t.BlockHash)
		res = s.w.Deliver(ctx, msg)
		addressed = d.b
		if res.OK() {
			isFinalizeOK = true
			valid := d.tree == int(d.b-1) && len(s.outs[d.b-1]) >= 1 && s.outs[d.b-1][0].Root == t.Name && !ctx.BlockTime().Before(s.outs[d.b-1][0].T.Add(c01Period))
			if !valid {
				return c, "accepted", viol("escrow-pays-only-own-bridge-withdrawals", "finalize on bridge %d with a leaf of tree %s accepted (outs=%v)", d.b, t.Name, s.outs[d.b-1])
			}
			m := nb()
			m[fmt.Sprintf("escrow%d/%s", d.b, w.Denom)] -= int64(w.Amount)
			m["bob/"+w.Denom] += int64(w.Amount)
			if d.tree == int(d.b-1) {
				outcome = "accepted"
			}
		} else if d.tree == int(d.b-1) && len(s.outs[d.b-1]) >= 1 && s.outs[d.b-1][0].Root == t.Name && !ctx.BlockTime().Before(s.outs[d.b-1][0].T.Add(c01Period)) &&
			s.bal[fmt.Sprintf("escrow%d/%s", d.b, w.Denom)] < int64(w.Amount) {
			outcome = "rejected-underfunded-escrow"
		}
	}
	if outcome == "" {
		if res.OK() {
			outcome = "accepted"
		} else {
			outcome = "rejected"
		}
	}
	if res.Panicked {
		return c, "panic", viol("handler-panic", "%s panicked: %s", l.Name, res.PanicVal)
	}
	if !res.OK() && s.w.Digest(ctx) != before {
		return c, outcome, viol("rejected-message-has-no-effect", "%s was rejected (%v) but changed state", l.Name, res.Err)
	}
	// (ii) isolation and (iii) escrow only decreases through a finalize of that bridge
	for i, id := range ids {
		after := c.bridgeSlice(ctx, id)
		if id != addressed && !bytes.Equal(after, slices[i]) {
			return c, outcome, viol("operation-on-one-bridge-leaves-others-untouched", "%s changed records or escrow of bridge %d", l.Name, id)
		}
		for _, den := range c01Denoms {
			was := balanceOf(s.w, s.ctx, ref.BridgeAddress(id), den)
			now := balanceOf(s.w, ctx, ref.BridgeAddress(id), den)
			if now < was && !(isFinalizeOK && addressed == id) {
				return c, outcome, viol("escrow-leaves-only-by-own-finalization", "%s lowered escrow of bridge %d (%s %d -> %d)", l.Name, id, den, was, now)
			}
		}
	}
	return c, outcome, nil
}

func (y *c01Sys) Check(s *c01State) *engine.Violation {
	if s.setup != "" {
		return viol("balances-equal-ledger", "building the start state: CreateBridge by a creator who holds the registration fee (the proposer holds nothing) failed: %s", s.setup)
	}
	total := map[string]int64{}
	for _, a := range c01Accounts {
		addr := c01Addr(a)
		if a == "pool" {
			addr = s.w.PoolAddr
		}
		all := s.w.BK.GetAllBalances(s.ctx, addr)
		for _, d := range c01Denoms {
			got := all.AmountOf(d).Int64()
			if got != s.bal[a+"/"+d] {
				keys := make([]string, 0)
				for k := range s.bal {
					keys = append(keys, fmt.Sprintf("%s=%d", k, s.bal[k]))
				}
				sort.Strings(keys)
				return viol("balances-equal-ledger", "%s holds %d%s, ledger says %d", a, got, d, s.bal[a+"/"+d])
			}
			total[d] += got
		}
		if len(all) > len(c01Denoms) {
			return viol("balances-equal-ledger", "%s holds unexpected denoms: %s", a, all)
		}
	}
	for _, d := range c01Denoms {
		if sup := s.w.BK.GetSupply(s.ctx, d).Amount.Int64(); sup != total[d] {
			return viol("no-other-account-is-touched", "supply of %s is %d but the known accounts hold %d", d, sup, total[d])
		}
	}
	return y.forgedAmountProbes(s)
}

// forgedAmountProbes: in every state where a bridge has a final first output, each leaf of its
// tree is claimed with an amount the tree does not commit to (amount+1, amount+2^64, 2^64), on a
// branch in which the escrow has been topped up so that it *could* pay — funds may leave an escrow
// only for a withdrawal that is in the finalized tree, so every such claim must be refused.
func (y *c01Sys) forgedAmountProbes(s *c01State) *engine.Violation {
	two64 := math.NewIntFromUint64(1 << 63).MulRaw(2)
	for b := uint64(1); b <= 2; b++ {
		outs := s.outs[b-1]
		t := y.trees[b-1]
		if len(outs) == 0 || outs[0].Root != t.Name || s.ctx.BlockTime().Before(outs[0].T.Add(c01Period)) {
			continue
		}
		for leaf, w := range t.Ws {
			genuine := math.NewIntFromUint64(w.Amount)
			for _, forged := range []math.Int{genuine.AddRaw(1), genuine.Add(two64), two64} {
				ctx, _ := s.ctx.CacheContext()
				top := sdk.NewCoins(sdk.NewCoin(w.Denom, forged))
				if err := s.w.BK.MintCoins(ctx, authtypes.Minter, top); err != nil {
					panic(err)
				}
				if err := s.w.BK.SendCoinsFromModuleToAccount(ctx, authtypes.Minter, ref.BridgeAddress(b), top); err != nil {
					panic(err)
				}
				msg := claimMsg(w, t.Tree.Proof(leaf), 1, "bob", t.Version, t.StorageRoot[:], t.BlockHash)
				msg.Amount = sdk.NewCoin(w.Denom, forged)
				y.forged.Add(1)
				if res := s.w.Deliver(ctx, msg); res.OK() {
					return tagged(viol("escrow-pays-only-own-bridge-withdrawals", "bridge %d paid %s%s for leaf %d of its final output, which commits to %d%s", b, forged, w.Denom, leaf, w.Amount, w.Denom), "probe", "forged-amount")
				}
			}
		}
	}
	return nil
}

func init() {
	register(&Check{ID: "C01", Level: "model_checking",
		Run: func(rc *engine.RunCtx) *engine.Result {
			res := engine.NewResult()
			for i, fee := range []bool{false, true} {
				o := opts(rc, pick(rc, 5, 7))
				if fee {
					o = opts(rc, pick(rc, 4, 6)) // the fee only matters at creation: one level less
				}
				o.Deadline = rc.Start.Add(rc.Budget * time.Duration(i+1) / 2)
				name := fmt.Sprintf("fee=%v", fee)
				sys := newC01Sys(fee)
				rep, err := engine.Explore[*c01State](sys, o)
				if err != nil {
					res.HarnessErr = err
					return res
				}
				res.Absorb(name, rep)
				res.Coverage["forged_amount_claims/"+name] = sys.forged.Load()
				res.Require(sys.forged.Load() > 0, "%s: no forged-amount claim was ever probed", name)
				for _, k := range []string{"Finalize/accepted", "Finalize/rejected", "Deposit/accepted", "Deposit/rejected", "CreateBridge/accepted", "BankSend/accepted"} {
					res.Require(res.OutcomeCount(name, k) > 0, "%s: outcome %s never occurred", name, k)
				}
			}
			res.Coverage["alphabet"] = "CreateBridge (twice: ids 2 and 3); Deposit(b∈{1,2,9}, denom∈{uxx,uyy}, amt∈{1,2}) + zero amount + unfunded sender; Propose(b, root∈{own tree, other bridge's tree}); Delete(b,1); Advance(period); Finalize(b, leaf∈{own w1, own w2, other bridge's w1}, by∈{bob,stranger}); BankSend(stranger→escrow of bridge 1, of bridge 2 (before and after its creation) and of the never-created bridge 9); UpdateProposer/UpdateChallenger(b); configuration axis: registration fee ∈ {none, 1uxx}"
			res.Coverage["oracle"] = "ledger model of all account balances compared after every transition (and supply = sum of known accounts); records+escrow of every non-addressed bridge byte-identical; escrow decreases only by a successful finalize of the same bridge whose leaf belongs to that bridge's tree; rejected ⇒ digest unchanged (incl. under-funded escrow); in every state with a final output, every leaf claimed with amount+1, amount+2^64 and 2^64 against an escrow topped up to cover it is refused"
			res.Assumptions = []string{"two trees with identical user fields that differ only in the bridge id", "bridge id 9 is never created"}
			return res
		},
		Replay: func(kind string, path []string) ([]string, *engine.Violation, error) {
			return engine.Replay[*c01State](newC01Sys(kind == "fee=true"), path)
		},
	})
}
