//go:build verifoverlay

package props

import "github.com/initia-labs/OPinit/x/verifmap"

// Bound only in the overlay build: the harness owns the order of every instrumented map range.
func init() {
	c18MapBegin = func(choose func(site string, n int) []int) func() [][2]any {
		s := &verifmap.Session{Choose: choose}
		verifmap.Bind(s)
		return func() [][2]any {
			verifmap.Bind(nil)
			var out [][2]any
			for _, l := range s.Log {
				out = append(out, [2]any{l.Name, l.N})
			}
			return out
		}
	}
}
