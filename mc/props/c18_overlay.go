//go:build verifoverlay

package props

import (
	"github.com/initia-labs/OPinit/x/verifmap"
	connectmap "github.com/skip-mev/connect/v2/verifmapx"
)

// Bound only in the overlay build: the harness owns the order of every instrumented map range, in
// the repository's packages and in the instrumented connect packages (each module has its own copy
// of the tiny verifmap package; both are bound to one recorder).
func init() {
	c18MapBegin = func(choose func(site string, n int) []int) func() [][2]any {
		var log [][2]any
		rec := func(site string, n int) []int {
			log = append(log, [2]any{site, n})
			if choose == nil {
				return nil
			}
			return choose(site, n)
		}
		verifmap.Bind(&verifmap.Session{Choose: rec})
		connectmap.Bind(&connectmap.Session{Choose: rec})
		return func() [][2]any {
			verifmap.Bind(nil)
			connectmap.Bind(nil)
			return log
		}
	}
}
