package props

import (
	"bytes"
	"context"
	"encoding/hex"
	"fmt"
	"sort"
	"strconv"
	"strings"
	"sync"
	"sync/atomic"
	"time"

	"cosmossdk.io/math"
	storetypes "cosmossdk.io/store/types"
	"github.com/cosmos/cosmos-sdk/client/tx"
	cryptotypes "github.com/cosmos/cosmos-sdk/crypto/types"
	sdk "github.com/cosmos/cosmos-sdk/types"
	"github.com/cosmos/cosmos-sdk/types/tx/signing"
	authante "github.com/cosmos/cosmos-sdk/x/auth/ante"
	authsign "github.com/cosmos/cosmos-sdk/x/auth/signing"
	authtypes "github.com/cosmos/cosmos-sdk/x/auth/types"
	banktypes "github.com/cosmos/cosmos-sdk/x/bank/types"

	opchildtypes "github.com/initia-labs/OPinit/x/opchild/types"
	ophosttypes "github.com/initia-labs/OPinit/x/ophost/types"

	"verifmc/engine"
	"verifmc/ref"
	"verifmc/world"
)

// C07 — a deposit can neither be lost nor block the bridge; hooks are contained (Mode P × Mode C).

var (
	c07DenA = ref.L2Denom(1, "uxx")
	c07DenB = ref.L2Denom(1, "uyy")
)

const c07HookDenom = "umin"

// hook target: the real bank MsgSend, with magic amounts that panic / burn gas
type c07BankMsg struct {
	banktypes.MsgServer
	limits *[]uint64
}

func (b c07BankMsg) Send(ctx context.Context, msg *banktypes.MsgSend) (*banktypes.MsgSendResponse, error) {
	sctx := sdk.UnwrapSDKContext(ctx)
	*b.limits = append(*b.limits, sctx.GasMeter().Limit())
	switch msg.Amount.AmountOf(c07HookDenom).Int64() {
	case 777:
		panic("hook target panics")
	case 888:
		for {
			sctx.GasMeter().ConsumeGas(100_000, "burning")
		}
	}
	return b.MsgServer.Send(ctx, msg)
}

// gas meter that records what was charged under which descriptor
type c07Meter struct {
	storetypes.GasMeter
	hook  *uint64
	marks *[]uint64 // cumulative consumption after every charge
}

func (m c07Meter) ConsumeGas(amount storetypes.Gas, descriptor string) {
	if descriptor == "bridge hook" {
		*m.hook += amount
	}
	m.GasMeter.ConsumeGas(amount, descriptor)
	*m.marks = append(*m.marks, m.GasMeter.GasConsumed())
}

type c07World struct {
	w              *world.L2
	f              *world.Faults
	limits         []uint64
	marks          []uint64
	starts         map[string]sdk.Context
	setupViolation *engine.Violation
}

func newC07World() *c07World {
	cw := &c07World{f: &world.Faults{}}
	cw.w = world.NewL2(world.L2Options{
		Accounts: map[string]sdk.Coins{"alice": nil, "bob": nil, "executor": nil, "admin": nil, "payee": nil, "e2": nil,
			"hooker": sdk.NewCoins(sdk.NewInt64Coin(c07HookDenom, 100))},
		Executors: world.ExecutorsWithSpare("executor"), // the relaying executor is the first of two listed ones, and the list is not sorted
		WrapBank: func(b opchildtypes.BankKeeper) opchildtypes.BankKeeper {
			return world.FaultBank{BankKeeper: b, F: cw.f}
		},
		WrapAcc: func(a opchildtypes.AccountKeeper) opchildtypes.AccountKeeper {
			return world.FaultAcc{AccountKeeper: a, F: cw.f}
		},
		WrapAnteAcc: func(a authante.AccountKeeper) authante.AccountKeeper { return world.FaultAnteAcc{Inner: a, F: cw.f} },
		WrapBankMsg: func(m banktypes.MsgServer) banktypes.MsgServer { return c07BankMsg{m, &cw.limits} },
	})
	// the bank already knows display metadata for denom B (an operator may put any metadata into the bank's
	// genesis); opchild has no pair for it yet
	cw.w.BK.SetDenomMetaData(cw.w.Ctx, banktypes.Metadata{Base: c07DenB, Display: c07DenB, Name: "pre-registered", Symbol: "PRE",
		DenomUnits: []*banktypes.DenomUnit{{Denom: c07DenB, Exponent: 0}}})
	cw.starts = map[string]sdk.Context{"fresh": cw.w.Ctx}
	// second start state: one credited deposit (pairs denom A) and one refunded deposit
	ctx, _ := cw.w.Ctx.CacheContext()
	cw.f.Reset(nil)
	ex := world.Addr("executor").String()
	for i, to := range []string{world.Addr("alice").String(), "malformed"} {
		r := cw.w.Deliver(ctx, opchildtypes.NewMsgFinalizeTokenDeposit(ex, "\tl1 sender ", to, sdk.NewInt64Coin(c07DenA, 5), uint64(i+1), 3, "uxx", nil))
		if !r.OK() {
			cw.setupViolation = tagged(viol("finalization-at-expected-sequence-succeeds", "building the second start state: deposit %d to %q failed: %v", i+1, to, r.Err), "rcpt", to)
			cw.starts["after-deposits"] = cw.w.Ctx
			return cw
		}
	}
	cw.starts["after-deposits"] = ctx
	// third start state: a rollup on which nothing has been minted yet — module accounts come into
	// being on first use, so the opchild module account does not exist
	pctx, _ := cw.w.Ctx.CacheContext()
	if acc := cw.w.AK.GetAccount(pctx, authtypes.NewModuleAddress(opchildtypes.ModuleName)); acc != nil {
		cw.w.AK.RemoveAccount(pctx, acc)
	}
	cw.starts["no-module-account"] = pctx
	// fourth start state: on such a rollup a zero-amount deposit named the opchild module address as its
	// recipient, which left a plain account there (from then on the module account cannot be created)
	sctx, _ := pctx.CacheContext()
	cw.f.Reset(nil)
	if r := cw.w.Deliver(sctx, opchildtypes.NewMsgFinalizeTokenDeposit(ex, "\tl1 sender ", authtypes.NewModuleAddress(opchildtypes.ModuleName).String(), sdk.NewInt64Coin(c07DenA, 0), 1, 3, "uxx", nil)); !r.OK() {
		cw.setupViolation = tagged(viol("finalization-at-expected-sequence-succeeds", "building the fourth start state: %v", r.Err), "rcpt", "opchild-module")
	}
	cw.starts["module-address-squatted"] = sctx
	return cw
}

type c07Input struct {
	Start    string
	Rcpt     string // menu name
	Amount   string
	Denom    string // "A" | "B"
	HookGas  string // "0" | "tight" | "default"
	OuterGas string // "infinite" | "finite" | "limit=<n>" (the gas-limit sweep)
	Payload  string
}

func (in c07Input) String() string {
	return fmt.Sprintf("start=%s rcpt=%s amt=%s denom=%s hookgas=%s outer=%s payload=%s", in.Start, in.Rcpt, in.Amount, in.Denom, in.HookGas, in.OuterGas, in.Payload)
}

var c07Rcpts = []string{"existing", "fresh", "malformed", "empty", "blank", "other-prefix", "blocked-module", "opchild-module"}
var c07Amounts = []string{"0", "1", "18446744073709551615"}
var c07Payloads = []string{"none", "random-bytes", "truncated-tx", "bad-signature", "wrong-sequence", "unroutable-msg", "signed[ok]", "signed[ok,fail]", "signed[fail]", "signed[panic]", "signed[gas-exhaust]", "signed[ok,ok]", "executor-signed[finalize-this-very-sequence]", "unsigned[msg-with-unparseable-signer]", "unsigned[no-messages]"}

func c07Recipient(name string) string {
	switch name {
	case "existing":
		return world.Addr("bob").String()
	case "fresh":
		return world.Addr("never-seen-before").String()
	case "malformed":
		return "cosmos1notanaddress"
	case "empty":
		return "" // L1 refuses to emit this one (see the L1-emittable family): L2 may refuse it too, atomically
	case "blank":
		return " "
	case "other-prefix":
		return "init1qypqxpq9qcrsszg2pvxq6rs0zqg3yyc5lzv7xu"
	case "blocked-module":
		return authtypes.NewModuleAddress(authtypes.FeeCollectorName).String()
	case "opchild-module":
		return authtypes.NewModuleAddress(opchildtypes.ModuleName).String()
	}
	panic(name)
}

const c07TightGas = 40_000

func c07HookGas(name string) uint64 {
	switch name {
	case "0":
		return 0
	case "tight":
		return c07TightGas
	}
	return opchildtypes.DefaultHookMaxGas
}

// payload builds the hook bytes for the state ctx (account number / sequence are read from it).
func (cw *c07World) payload(ctx sdk.Context, name string, self *opchildtypes.MsgFinalizeTokenDeposit) ([]byte, int) {
	if name == "none" {
		return nil, 0
	}
	if name == "unsigned[msg-with-unparseable-signer]" || name == "unsigned[no-messages]" {
		// decodable transactions nobody has to sign: one whose only message names a signer string that is
		// no address at all, and one without any message
		b := cw.w.Enc.TxConfig.NewTxBuilder()
		if name == "unsigned[msg-with-unparseable-signer]" {
			if err := b.SetMsgs(&banktypes.MsgSend{FromAddress: "not-a-bech32-address", ToAddress: world.Addr("payee").String(), Amount: sdk.NewCoins(sdk.NewInt64Coin(c07HookDenom, 1))}); err != nil {
				panic(err)
			}
		}
		b.SetGasLimit(100_000)
		bz, err := cw.w.Enc.TxConfig.TxEncoder()(b.GetTx())
		if err != nil {
			panic(err)
		}
		return bz, 0
	}
	if name == "executor-signed[finalize-this-very-sequence]" {
		// re-entrancy: the hook, signed by the bridge executor, relays the very deposit that is being
		// processed (same sequence, no hook data). By then the sequence counts as processed, so the
		// inner message is a no-op and the deposit is credited once.
		ex := world.Addr("executor")
		inner := *self
		inner.Data = nil
		acc := cw.w.AK.GetAccount(ctx, ex)
		key := world.SecpKey("executor")
		return cw.sign([]sdk.Msg{&inner}, key, key.PubKey(), acc.GetAccountNumber(), acc.GetSequence(), ctx.ChainID()), 0
	}
	if name == "random-bytes" {
		return []byte{0xde, 0xad, 0xbe, 0xef, 0x01, 0x02}, 0
	}
	h := world.Addr("hooker")
	send := func(amt int64) sdk.Msg {
		return banktypes.NewMsgSend(h, world.Addr("payee"), sdk.NewCoins(sdk.NewInt64Coin(c07HookDenom, amt)))
	}
	var msgs []sdk.Msg
	oks := 0
	signer := world.SecpKey("hooker")
	seqDelta := uint64(0)
	switch name {
	case "truncated-tx", "signed[ok]":
		msgs, oks = []sdk.Msg{send(1)}, 1
	case "bad-signature":
		msgs = []sdk.Msg{send(1)}
		signer = world.SecpKey("someone-else")
	case "wrong-sequence":
		msgs = []sdk.Msg{send(1)}
		seqDelta = 5
	case "unroutable-msg":
		msgs = []sdk.Msg{&authtypes.MsgUpdateParams{Authority: h.String(), Params: authtypes.DefaultParams()}}
	case "signed[ok,fail]":
		msgs = []sdk.Msg{send(1), send(1_000_000)}
	case "signed[fail]":
		msgs = []sdk.Msg{send(1_000_000)}
	case "signed[panic]":
		msgs = []sdk.Msg{send(1), send(777)}
	case "signed[gas-exhaust]":
		msgs = []sdk.Msg{send(1), send(888)}
	case "signed[ok,ok]":
		msgs, oks = []sdk.Msg{send(1), send(2)}, 3
	default:
		panic(name)
	}
	acc := cw.w.AK.GetAccount(ctx, h)
	bz := cw.sign(msgs, signer, world.SecpKey("hooker").PubKey(), acc.GetAccountNumber(), acc.GetSequence()+seqDelta, ctx.ChainID())
	if name == "truncated-tx" {
		return bz[:len(bz)-7], 0
	}
	if name != "signed[ok]" && name != "signed[ok,ok]" {
		oks = 0
	}
	return bz, oks
}

func (cw *c07World) sign(msgs []sdk.Msg, priv cryptotypes.PrivKey, pub cryptotypes.PubKey, accNum, seq uint64, chainID string) []byte {
	return signHookTx(cw.w, msgs, priv, pub, accNum, seq, chainID)
}

// signHookTx builds and signs (SIGN_MODE_DIRECT) the tx bytes carried as deposit hook data.
func signHookTx(w *world.L2, msgs []sdk.Msg, priv cryptotypes.PrivKey, pub cryptotypes.PubKey, accNum, seq uint64, chainID string) []byte {
	txc := w.Enc.TxConfig
	b := txc.NewTxBuilder()
	if err := b.SetMsgs(msgs...); err != nil {
		panic(err)
	}
	b.SetGasLimit(500_000)
	mode, err := authsign.APISignModeToInternal(txc.SignModeHandler().DefaultMode())
	if err != nil {
		panic(err)
	}
	sig := signing.SignatureV2{PubKey: pub, Data: &signing.SingleSignatureData{SignMode: mode}, Sequence: seq}
	if err := b.SetSignatures(sig); err != nil {
		panic(err)
	}
	sd := authsign.SignerData{Address: sdk.AccAddress(pub.Address()).String(), ChainID: chainID, AccountNumber: accNum, Sequence: seq, PubKey: pub}
	s2, err := tx.SignWithPrivKey(context.TODO(), mode, sd, b, priv, txc, seq)
	if err != nil {
		panic(err)
	}
	s2.PubKey = pub
	if err := b.SetSignatures(s2); err != nil {
		panic(err)
	}
	bz, err := txc.TxEncoder()(b.GetTx())
	if err != nil {
		panic(err)
	}
	return bz
}

type c07Obs struct {
	calls   []string
	hit     []string
	outcome string
	hookOK  bool
}

type c07Snap struct {
	rcptBal, supply, payee, hbal math.Int
	hseq, nextL1, nextL2         uint64
}

func (cw *c07World) snap(ctx sdk.Context, rcpt sdk.AccAddress, denom string) c07Snap {
	s := c07Snap{rcptBal: math.ZeroInt(), supply: cw.w.BK.GetSupply(ctx, denom).Amount,
		payee: cw.w.BK.GetBalance(ctx, world.Addr("payee"), c07HookDenom).Amount, hbal: cw.w.BK.GetBalance(ctx, world.Addr("hooker"), c07HookDenom).Amount}
	if rcpt != nil {
		s.rcptBal = cw.w.BK.GetBalance(ctx, rcpt, denom).Amount
	}
	if a := cw.w.AK.GetAccount(ctx, world.Addr("hooker")); a != nil {
		s.hseq = a.GetSequence()
	}
	s.nextL1, _ = cw.w.K.GetNextL1Sequence(ctx)
	s.nextL2, _ = cw.w.K.GetNextL2Sequence(ctx)
	return s
}

func slicesCompact(a []string) []string {
	var out []string
	for i, x := range a {
		if i == 0 || x != a[i-1] {
			out = append(out, x)
		}
	}
	return out
}

// c07ResidueClass names what a raw-store change left by a refunded deposit is; "" = allowed.
func c07ResidueClass(cw *c07World, before, after sdk.Context, ch world.RawChange, rcpt sdk.AccAddress, denom string) string {
	switch ch.Store {
	case opchildtypes.StoreKey:
		switch {
		case bytes.Equal(ch.Key, opchildtypes.NextL1SequenceKey), bytes.Equal(ch.Key, opchildtypes.NextL2SequenceKey):
			return ""
		case bytes.HasPrefix(ch.Key, opchildtypes.DenomPairPrefix) && ch.Was == nil && strings.Contains(string(ch.Key), denom):
			return "" // registered by the first deposit of the denom, before the outcome is known
		}
		return fmt.Sprintf("opchild key %x", ch.Key)
	case banktypes.StoreKey:
		if bytes.HasPrefix(ch.Key, banktypes.DenomMetadataPrefix) && ch.Was == nil && strings.Contains(string(ch.Key), denom) {
			return ""
		}
		return fmt.Sprintf("bank key %x (%x -> %x)", ch.Key, ch.Was, ch.Now)
	case authtypes.StoreKey:
		// the hook signer's account: only its sequence (and first-use public key) may have moved
		for _, hk := range []sdk.AccAddress{world.Addr("hooker"), world.Addr("executor")} {
			if !bytes.Contains(ch.Key, hk) || ch.Was == nil || ch.Now == nil {
				continue
			}
			ha, hb := cw.w.AK.GetAccount(before, hk), cw.w.AK.GetAccount(after, hk)
			if err := hb.SetSequence(ha.GetSequence()); err != nil {
				panic(err)
			}
			// the ante chain also records the signer's public key on first use; it can only ever be the
			// one key the address commits to, so it is counted with the sequence
			if ha.GetPubKey() == nil && hb.GetPubKey() != nil {
				if err := ha.SetPubKey(hb.GetPubKey()); err != nil {
					panic(err)
				}
			}
			ba, _ := cw.w.Enc.Marshaler.MarshalInterface(ha)
			bb, _ := cw.w.Enc.Marshaler.MarshalInterface(hb)
			if bytes.Equal(ba, bb) {
				return ""
			}
			return "auth: the hook signer's account changed beyond its sequence"
		}
		if rcpt != nil && bytes.Contains(ch.Key, rcpt) && ch.Was == nil {
			return "auth: an account record created by the mint/transfer that was undone"
		}
		if mod := authtypes.NewModuleAddress(opchildtypes.ModuleName); bytes.Contains(ch.Key, mod) && ch.Was == nil {
			return "auth: an account record created by the mint/transfer that was undone"
		}
		if bytes.HasPrefix(ch.Key, []byte("accountNumber")) && ch.Was == nil {
			return "auth: an account-number index entry"
		}
		if bytes.Equal(ch.Key, authtypes.GlobalAccountNumberKey.Bytes()) {
			return "auth: the global account number counter"
		}
		return fmt.Sprintf("auth key %x", ch.Key)
	}
	return fmt.Sprintf("%s key %x", ch.Store, ch.Key)
}

var c07Contained = map[string]bool{"opchild.bank.MintCoins": true, "opchild.bank.SendCoinsFromModuleToAccount": true}

func c07IsContained(site string) bool {
	return c07Contained[site] || strings.HasPrefix(site, "ante.acc.")
}

// exec runs one finalization with a fault plan on a branch of the start state and judges it.
func (cw *c07World) exec(in c07Input, plan map[int]string, wantPrefix []string) (c07Obs, *engine.Violation) {
	var obs c07Obs
	ctx, _ := cw.starts[in.Start].CacheContext()
	cw.f.Reset(nil)
	p, _ := cw.w.K.GetParams(ctx)
	p.HookMaxGas = c07HookGas(in.HookGas)
	if err := cw.w.K.SetParams(ctx, p); err != nil {
		panic(err)
	}
	hookCharged := uint64(0)
	var base storetypes.GasMeter = storetypes.NewInfiniteGasMeter()
	if in.OuterGas == "finite" {
		base = storetypes.NewGasMeter(10_000_000 + p.HookMaxGas)
	} else if strings.HasPrefix(in.OuterGas, "limit=") {
		n, err := strconv.ParseUint(in.OuterGas[6:], 10, 64)
		if err != nil {
			panic(err)
		}
		base = storetypes.NewGasMeter(n)
	}
	ctx = ctx.WithGasMeter(storetypes.NewInfiniteGasMeter()) // observations and set-up are not the transaction's
	denom := c07DenA
	baseDenom := "uxx"
	if in.Denom == "B" {
		denom, baseDenom = c07DenB, "uyy"
	}
	amt, _ := math.NewIntFromString(in.Amount)
	to := c07Recipient(in.Rcpt)
	var rcpt sdk.AccAddress
	if a, err := cw.w.AK.AddressCodec().StringToBytes(to); err == nil {
		rcpt = a
	}
	before := cw.snap(ctx, rcpt, denom)
	msg := opchildtypes.NewMsgFinalizeTokenDeposit(world.Addr("executor").String(), "\tl1 sender ", to, sdk.NewCoin(denom, amt), before.nextL1, 9, baseDenom, nil)
	data, oks := cw.payload(ctx, in.Payload, msg)
	msg.Data = data
	d0 := cw.w.Digest(ctx)
	cw.limits = cw.limits[:0]
	cw.f.Reset(plan)
	cw.marks = cw.marks[:0]
	res := cw.w.Deliver(ctx.WithGasMeter(c07Meter{base, &hookCharged, &cw.marks}), msg)
	obs.calls = append([]string{}, cw.f.Calls...)
	obs.hit = append([]string{}, cw.f.Hit...)
	cw.f.Reset(nil)
	// replay discipline: the recorded prefix must be reached again
	for i, s := range wantPrefix {
		if i >= len(obs.calls) || obs.calls[i] != s {
			return obs, &engine.Violation{Clause: "harness-replay-divergence", Msg: fmt.Sprintf("call %d was %v, recorded %s", i, obs.calls, s), Tags: map[string]string{}}
		}
	}
	allContained := true
	for _, h := range obs.hit {
		parts := strings.SplitN(h, ":", 3)
		if !c07IsContained(parts[1]) {
			allContained = false
		}
	}
	label := in.String()
	if len(obs.hit) > 0 {
		label += " faults=" + strings.Join(obs.hit, ",")
	}
	after := cw.snap(ctx, rcpt, denom)
	if !res.OK() {
		obs.outcome = "handler-error"
		if len(obs.hit) == 0 && strings.HasPrefix(in.OuterGas, "limit=") && res.OutOfGas {
			// a transaction gas limit below what the handler needs: the transaction fails as a whole
			if cw.w.Digest(ctx) != d0 {
				return obs, viol("failed-finalization-is-atomic", "%s: out of gas but state changed", label)
			}
			obs.outcome = "out-of-gas"
			return obs, nil
		}
		if len(obs.hit) == 0 && in.Rcpt == "empty" && cw.w.Digest(ctx) == d0 {
			obs.outcome = "refused-what-l1-cannot-emit"
			return obs, nil
		}
		if len(obs.hit) == 0 {
			return obs, tagged(viol("finalization-at-expected-sequence-succeeds", "%s: handler failed: %v", label, res.Err), "payload", in.Payload, "rcpt", in.Rcpt)
		}
		if allContained {
			return obs, tagged(viol("contained-failure-never-becomes-handler-error", "%s: a failing mint/transfer/hook turned into a handler error (%v), which stalls every later deposit", label, res.Err), "site", obs.hit[0])
		}
		if cw.w.Digest(ctx) != d0 {
			return obs, viol("failed-finalization-is-atomic", "%s: handler failed but state changed", label)
		}
		return obs, nil
	}
	r := res.Resp.(*opchildtypes.MsgFinalizeTokenDepositResponse)
	if r.Result != opchildtypes.SUCCESS {
		return obs, viol("finalization-at-expected-sequence-succeeds", "%s: result %s", label, r.Result)
	}
	if after.nextL1 != before.nextL1+1 {
		return obs, viol("sequence-advances-by-one", "%s: NextL1Sequence %d -> %d", label, before.nextL1, after.nextL1)
	}
	fevs := world.EventsOfType(res.Events, "finalize_token_deposit")
	wevs := world.EventsOfType(res.Events, "initiate_token_withdrawal")
	if len(fevs) != 1 {
		return obs, viol("one-finalize-event", "%s: %d finalize events", label, len(fevs))
	}
	succ, _ := world.Attr(fevs[0], "success")
	dSupply := after.supply.Sub(before.supply)
	dRcpt := after.rcptBal.Sub(before.rcptBal)
	switch {
	case len(wevs) == 0:
		// credited
		if !dSupply.Equal(amt) || (rcpt != nil && !dRcpt.Equal(amt)) || rcpt == nil {
			return obs, tagged(viol("credited-or-refunded-exactly", "%s: no refund recorded but supply +%s, recipient +%s (amount %s)", label, dSupply, dRcpt, amt), "payload", in.Payload)
		}
		if after.nextL2 != before.nextL2 {
			return obs, viol("credited-or-refunded-exactly", "%s: credited but NextL2Sequence moved", label)
		}
		if len(data) > 0 && succ != "true" {
			return obs, viol("credited-or-refunded-exactly", "%s: hook failed (success=%s) but the deposit stayed credited", label, succ)
		}
		obs.hookOK = len(data) > 0
		obs.outcome = "credited"
		if obs.hookOK {
			obs.outcome = "credited+hook"
		}
	case len(wevs) == 1:
		if !dSupply.IsZero() || !dRcpt.IsZero() {
			return obs, tagged(viol("refund-leaves-no-net-mint", "%s: refunded but supply %+v, recipient %+v", label, dSupply, dRcpt), "payload", in.Payload)
		}
		want := map[string]string{"from": to, "to": "\tl1 sender ", "denom": denom, "base_denom": baseDenom, "amount": amt.String(), "l2_sequence": strconv.FormatUint(before.nextL2, 10)}
		if (in.Start == "after-deposits" || in.Start == "module-address-squatted") && in.Denom == "A" {
			want["base_denom"] = "uxx"
		}
		for k, wv := range want {
			if got, _ := world.Attr(wevs[0], k); got != wv {
				return obs, tagged(viol("refund-withdrawal-back-to-l1-sender", "%s: refund event %s=%q, expected %q", label, k, got, wv), "attr", k)
			}
		}
		if after.nextL2 != before.nextL2+1 {
			return obs, viol("refund-withdrawal-back-to-l1-sender", "%s: NextL2Sequence %d -> %d", label, before.nextL2, after.nextL2)
		}
		obs.outcome = "refunded"
		// whole-state residue: apart from the two sequences, the denom registration made before the
		// outcome is known, and the hook signer's account sequence, a refunded deposit leaves the raw
		// stores exactly as they were
		bctx, _ := cw.starts[in.Start].CacheContext()
		if err := cw.w.K.SetParams(bctx, p); err != nil {
			panic(err)
		}
		var left []string
		for _, ch := range world.RawDiff(bctx, ctx, cw.w.StoreKeys) {
			if c := c07ResidueClass(cw, bctx, ctx, ch, rcpt, denom); c != "" {
				left = append(left, c)
			}
		}
		if len(left) > 0 {
			sort.Strings(left)
			left = slicesCompact(left)
			return obs, tagged(viol("refund-leaves-nothing-behind", "%s: refunded, but the state keeps: %s", label, strings.Join(left, "; ")), "residue", strings.Join(left, "; "))
		}
	default:
		return obs, viol("credited-or-refunded-exactly", "%s: %d refund withdrawals recorded", label, len(wevs))
	}
	// hook effects: all-or-nothing
	dPayee := after.payee.Sub(before.payee)
	dH := before.hbal.Sub(after.hbal)
	if obs.hookOK {
		// the hook messages' events are part of its effects: the executor relays from events
		// (e.g. a withdrawal initiated inside a hook), so they must reach the transaction
		nTransfers := 0
		for _, e := range world.EventsOfType(res.Events, "transfer") {
			if r, _ := world.Attr(e, "recipient"); r == world.Addr("payee").String() {
				nTransfers++
			}
		}
		wantTransfers := map[string]int{"signed[ok]": 1, "signed[ok,ok]": 2}[in.Payload]
		if nTransfers != wantTransfers {
			return obs, tagged(viol("hook-effects-applied-when-hook-succeeds", "%s: hook succeeded with %d bank sends but the transaction carries %d of their transfer events", label, wantTransfers, nTransfers), "what", "events")
		}
		if !dPayee.Equal(math.NewInt(int64(oks))) || !dH.Equal(math.NewInt(int64(oks))) {
			return obs, viol("hook-effects-applied-when-hook-succeeds", "%s: hook succeeded but payee +%s / signer -%s (expected %d)", label, dPayee, dH, oks)
		}
	} else if !dPayee.IsZero() || !dH.IsZero() {
		return obs, tagged(viol("failed-hook-leaves-no-effects", "%s: hook did not succeed but payee +%s / signer -%s", label, dPayee, dH), "payload", in.Payload)
	}
	if !obs.hookOK {
		// ... and no trace in the transaction's events either: relayers act on events, and what a rolled-back
		// message announced never happened
		for _, e := range world.EventsOfType(res.Events, "transfer") {
			if r, _ := world.Attr(e, "recipient"); r == world.Addr("payee").String() {
				return obs, tagged(viol("failed-hook-leaves-no-effects", "%s: hook did not succeed but the transaction carries a transfer event of one of its messages (to the payee)", label), "payload", in.Payload, "what", "events")
			}
		}
	}
	if after.hseq < before.hseq || after.hseq > before.hseq+1 {
		return obs, viol("failed-hook-leaves-no-effects", "%s: hook signer sequence %d -> %d", label, before.hseq, after.hseq)
	}
	// a correctly signed hook that got as far as its messages consumes the signer's sequence whether the
	// messages succeed or not: the payload is public on L1 and must not be replayable
	reason, _ := world.Attr(fevs[0], "reason")
	ran := obs.hookOK || strings.HasPrefix(reason, "hook failed; Failed to execute Msg") || strings.HasPrefix(reason, "hook failed; panic")
	if strings.HasPrefix(in.Payload, "signed[") && in.HookGas == "default" && len(obs.hit) == 0 && ran && after.hseq != before.hseq+1 {
		return obs, tagged(viol("hook-signer-sequence-is-consumed", "%s: the hook passed signature verification but its signer's sequence stayed at %d", label, after.hseq), "payload", in.Payload)
	}
	if hookCharged > p.HookMaxGas {
		return obs, tagged(viol("hook-spends-at-most-hook-gas", "%s: %d gas charged for the hook, HookMaxGas=%d", label, hookCharged, p.HookMaxGas), "where", "outer")
	}
	for _, l := range cw.limits {
		if l > p.HookMaxGas {
			return obs, tagged(viol("hook-spends-at-most-hook-gas", "%s: hook message ran under a gas limit of %d, HookMaxGas=%d", label, l, p.HookMaxGas), "where", "inner")
		}
	}
	return obs, nil
}

func c07Inputs(rc *engine.RunCtx) (full, faulted []c07Input) {
	for _, st := range []string{"fresh", "after-deposits", "no-module-account", "module-address-squatted"} {
		for _, r := range c07Rcpts {
			for _, a := range c07Amounts {
				for _, d := range []string{"A", "B"} {
					for _, hg := range []string{"0", "tight", "default"} {
						for _, og := range []string{"infinite", "finite"} {
							for _, pl := range c07Payloads {
								in := c07Input{st, r, a, d, hg, og, pl}
								full = append(full, in)
								if rc.Thorough() || og == "infinite" {
									faulted = append(faulted, in)
								}
							}
						}
					}
				}
			}
		}
	}
	return
}

func c07Run(rc *engine.RunCtx) *engine.Result {
	res := engine.NewResult()
	known := rc.Known.Matcher(rc.Property)
	full, faulted := c07Inputs(rc)
	isFaulted := map[c07Input]bool{}
	for _, in := range faulted {
		isFaulted[in] = true
	}
	var mu sync.Mutex
	outcomes := map[string]int{}
	sites := map[string]int{}
	var execs, faultRuns, points, gasRuns, maxHits atomic.Int64
	maxDev := 1
	if rc.Thorough() {
		maxDev = 3
	}
	report := func(v *engine.Violation, in c07Input, plan map[int]string) {
		v.Path = []string{c07Encode(in, plan)}
		v.Tags["search"] = "faults"
		mu.Lock()
		defer mu.Unlock()
		if id, ok := known(v); ok {
			res.KnownHits[id]++
			if _, have := res.KnownWit[id]; !have {
				res.KnownWit[id] = v
			}
			return
		}
		if len(res.Violations) < 200 {
			res.Violations = append(res.Violations, v)
		}
	}
	var next atomic.Int64
	var wg sync.WaitGroup
	cut := atomic.Bool{}
	for wk := 0; wk < rc.Workers; wk++ {
		wg.Add(1)
		go func() {
			defer wg.Done()
			cw := newC07World()
			if cw.setupViolation != nil {
				report(cw.setupViolation, c07Input{Start: "after-deposits", Rcpt: "setup"}, nil)
				return
			}
			for {
				i := int(next.Add(1) - 1)
				if i >= len(full) {
					return
				}
				if time.Now().After(rc.Deadline()) {
					cut.Store(true)
					return
				}
				in := full[i]
				obs, v := cw.exec(in, nil, nil)
				execs.Add(1)
				mu.Lock()
				outcomes[obs.outcome]++
				mu.Unlock()
				if v != nil {
					report(v, in, nil)
					continue
				}
				if in.OuterGas == "infinite" && (rc.Thorough() || (in.Start == "fresh" && in.Denom == "A" && in.HookGas == "default" && in.Amount == "1")) {
					// gas-limit sweep: the same deposit under every transaction gas limit at which the handler
					// can run out of gas — the recovers around the mint and the hook must not turn an exhausted
					// *transaction* meter into a half-processed deposit
					for _, lim := range c18Limits(append([]uint64{}, cw.marks...)) {
						lin := in
						lin.OuterGas = fmt.Sprintf("limit=%d", lim)
						o3, v3 := cw.exec(lin, nil, nil)
						execs.Add(1)
						gasRuns.Add(1)
						mu.Lock()
						outcomes["gas-limit→"+o3.outcome]++
						mu.Unlock()
						if v3 != nil {
							report(v3, lin, nil)
							break
						}
					}
				}
				if !isFaulted[in] {
					continue
				}
				// Mode C: deviation-bounded exploration of fault points
				var explore func(plan map[int]string, calls []string, from int, dev int)
				explore = func(plan map[int]string, calls []string, from int, dev int) {
					for pt := from; pt < len(calls); pt++ {
						points.Add(1)
						for _, kind := range []string{"error", "panic"} {
							np := map[int]string{pt: kind}
							for k, vv := range plan {
								np[k] = vv
							}
							o2, v2 := cw.exec(in, np, calls[:pt+1])
							execs.Add(1)
							faultRuns.Add(1)
							if len(o2.hit) <= len(plan) { // "error" at a site that cannot return one: no deviation happened
								continue
							}
							for h := int64(len(o2.hit)); h > maxHits.Load(); {
								maxHits.Store(h)
							}
							mu.Lock()
							sites[calls[pt]+":"+kind]++
							outcomes["fault→"+o2.outcome]++
							mu.Unlock()
							if v2 != nil {
								if v2.Clause == "harness-replay-divergence" {
									mu.Lock()
									if res.HarnessErr == nil {
										res.HarnessErr = fmt.Errorf("%s: %s", in, v2.Msg)
									}
									mu.Unlock()
									return
								}
								report(v2, in, np)
								continue
							}
							if dev+1 < maxDev {
								explore(np, o2.calls, pt+1, dev+1)
							}
						}
					}
				}
				explore(map[int]string{}, obs.calls, 0, 0)
			}
		}()
	}
	wg.Wait()
	// the L1 side: everything the real L1 handler accepts must be finalizable
	lw := newC07L1World()
	l1Accepted, l1Refused := 0, 0
	for _, lin := range c07L1Inputs() {
		acc, v := lw.run(lin)
		execs.Add(1)
		if acc {
			l1Accepted++
		} else {
			l1Refused++
		}
		if v != nil {
			v.Path = []string{"L1|" + lin.Denom + "|" + lin.Amount + "|" + lin.To + "|" + lin.Data}
			v.Tags["search"] = "l1-emittable"
			mu.Lock()
			if _, ok := known(v); !ok && len(res.Violations) < 200 {
				res.Violations = append(res.Violations, v)
			}
			mu.Unlock()
		}
	}
	res.Coverage["l1_emittable_deposits"] = map[string]any{"inputs": len(c07L1Inputs()), "accepted_by_l1_and_finalized_on_l2": l1Accepted, "refused_by_l1": l1Refused,
		"menu": "denom ∈ {valid short, ibc hash path, '!', leading digit, 2 chars, with a space, empty, 129 chars, upper case, l2/ prefix} × amount ∈ {0, 1, 2^64-1, 2^64} × recipient ∈ {valid, empty, garbage, 200 non-ASCII bytes} × payload ∈ {none, bytes}; sent as raw message structs"}
	res.Require(l1Accepted > 0 && l1Refused > 0, "the L1-emittable family is one-sided")
	res.Coverage["exhaustive"] = !cut.Load()
	res.Coverage["states"] = int64(len(full))
	res.Coverage["transitions"] = execs.Load()
	res.Coverage["traces_validated_against_impl"] = execs.Load()
	res.Coverage["evaluations"] = execs.Load()
	res.Coverage["distinct_nontrivial"] = int64(len(full))
	res.Coverage["rule"] = "states = distinct deposit inputs (start state × recipient × amount × denom × HookMaxGas × outer meter × hook payload); transitions = executions of the real FinalizeTokenDeposit handler, one without faults per input plus one per (keeper-call index, fault kind) up to the deviation bound"
	res.Coverage["gas_limit_runs"] = gasRuns.Load()
	res.Coverage["gas_limit_sweep"] = "for the cumulative gas m after every single charge of the unlimited run, the same deposit under the transaction gas limit m-1 and under the total; quick: start=fresh, new denom, default hook gas, amount 1, every recipient and payload; thorough: every input"
	res.Coverage["fault_runs"] = faultRuns.Load()
	res.Coverage["fault_points"] = points.Load()
	res.Coverage["deviation_bound"] = maxDev
	res.Coverage["most_faults_in_one_run"] = maxHits.Load()
	res.Coverage["deviation_bound_saturated"] = maxHits.Load() < int64(maxDev) // no execution offers a call after that many faults: a larger bound explores nothing new
	res.Coverage["fault_sites"] = sites
	res.Coverage["outcomes"] = outcomes
	res.Coverage["inputs_with_fault_exploration"] = len(faulted)
	res.AddSample(map[string]any{"input": full[0].String()})
	res.AddSample(map[string]any{"input": faulted[len(faulted)/2].String(), "faults": "error and panic at every bank/account keeper call the handler makes"})
	res.Coverage["oracle"] = "no fault: SUCCESS and exactly one of credited (recipient and supply +amount, no refund event, hook effects iff hook succeeded) / refunded (no net mint, one initiate_token_withdrawal from the deposit's recipient string to the L1 sender for the full amount at the previous NextL2Sequence); NextL1Sequence +1; failed hook leaves no effects except the signer's sequence; hook gas charged ≤ HookMaxGas and inner limit ≤ HookMaxGas. Fault inside the mint/transfer cache section or the hook: same dichotomy, never a handler error. Fault elsewhere: handler error with unchanged digest, or the dichotomy"
	res.Assumptions = []string{"hook target = real bank MsgSend behind a wrapper that panics / burns gas on magic amounts", "fault points = calls through the BankKeeper/AccountKeeper interfaces handed to opchild.NewKeeper and to the hook's decorator chain"}
	for _, k := range []string{"credited", "credited+hook", "refunded", "fault→refunded", "fault→handler-error"} {
		res.Require(outcomes[k] > 0, "outcome %s never occurred", k)
	}
	return res
}

// ---------------------------------------------------------------------------------------------
// "every deposit L1 can emit": whatever the real L1 handler accepts and announces must be finalizable
// on L2 at the expected sequence (otherwise the in-order rule stalls the bridge for ever).

type c07L1Input struct {
	Denom, Amount, To, Data string
}

var c07L1Denoms = []string{"uxx", "ibc/27394FB092D2ECCD56123C74F36E4C1F926001CEADA9CA97EA622B25F41E5EB2", "!", "1abc", "ab", "has space", "", strings.Repeat("a", 129), "UPPER", "l2/looks-like-an-l2-denom"}
var c07L1Amounts = []string{"0", "1", "18446744073709551615", "18446744073709551616"}
var c07L1Tos = []string{"valid", "empty", "garbage", "long-non-ascii"}
var c07L1Datas = []string{"none", "bytes"}

func c07L1Inputs() []c07L1Input {
	var out []c07L1Input
	for _, d := range c07L1Denoms {
		for _, a := range c07L1Amounts {
			for _, t := range c07L1Tos {
				for _, dt := range c07L1Datas {
					out = append(out, c07L1Input{d, a, t, dt})
				}
			}
		}
	}
	return out
}

func (in c07L1Input) String() string {
	d := in.Denom
	if len(d) > 24 {
		d = fmt.Sprintf("%s…(%d chars)", d[:12], len(d))
	}
	return fmt.Sprintf("L1Deposit(denom=%q,amount=%s,to=%s,data=%s)", d, in.Amount, in.To, in.Data)
}

type c07L1World struct {
	l1 *world.L1
	cw *c07World
}

func newC07L1World() *c07L1World {
	huge, _ := math.NewIntFromString("100000000000000000000000")
	coins := sdk.Coins{}
	for _, d := range c07L1Denoms {
		if sdk.ValidateDenom(d) == nil {
			coins = coins.Add(sdk.NewCoin(d, huge))
		}
	}
	l1 := world.NewL1(world.L1Options{Accounts: map[string]sdk.Coins{"proposer": nil, "challenger": nil, "creator": nil, "submitter": nil, "alice": coins}})
	if r := l1.Deliver(l1.Ctx, ophosttypes.NewMsgCreateBridge(world.Addr("creator").String(), world.BridgeConfig("proposer", "challenger", 10*time.Second))); !r.OK() {
		panic(r.Err)
	}
	return &c07L1World{l1: l1, cw: newC07World()}
}

// run executes one L1 deposit input; accepted reports whether L1 took it.
func (lw *c07L1World) run(in c07L1Input) (accepted bool, v *engine.Violation) {
	amt, _ := math.NewIntFromString(in.Amount)
	to := map[string]string{"valid": world.Addr("bob").String(), "empty": "", "garbage": "cosmos1notanaddress", "long-non-ascii": strings.Repeat("ü/", 100)}[in.To]
	var data []byte
	if in.Data == "bytes" {
		data = []byte{0, 1, 0xfe, 0xff}
	}
	c1, _ := lw.l1.Ctx.CacheContext()
	msg := &ophosttypes.MsgInitiateTokenDeposit{Sender: world.Addr("alice").String(), BridgeId: 1, To: to, Amount: sdk.Coin{Denom: in.Denom, Amount: amt}, Data: data}
	res := lw.l1.Deliver(c1, msg)
	if !res.OK() {
		return false, nil
	}
	evs := world.EventsOfType(res.Events, "initiate_token_deposit")
	if len(evs) != 1 {
		return true, viol("every-deposit-l1-emits-is-finalizable", "%s: L1 accepted it with %d deposit events", in, len(evs))
	}
	g := func(k string) string { x, _ := world.Attr(evs[0], k); return x }
	eamt, ok := math.NewIntFromString(g("amount"))
	if !ok {
		return true, viol("every-deposit-l1-emits-is-finalizable", "%s: announced amount %q is not a number", in, g("amount"))
	}
	edata, _ := hex.DecodeString(g("data"))
	cw := lw.cw
	c2, _ := cw.w.Ctx.CacheContext()
	next, _ := cw.w.K.GetNextL1Sequence(c2)
	// what a faithful executor relays: exactly the announced fields (struct literal: no client-side checks)
	l2msg := &opchildtypes.MsgFinalizeTokenDeposit{Sender: world.Addr("executor").String(), From: g("from"), To: g("to"),
		Amount: sdk.Coin{Denom: g("l2_denom"), Amount: eamt}, Sequence: next, Height: 9, BaseDenom: g("l1_denom"), Data: edata}
	r2 := cw.w.Deliver(c2, l2msg)
	if !r2.OK() {
		return true, tagged(viol("every-deposit-l1-emits-is-finalizable", "%s was accepted and announced by L1 (l1_denom=%q l2_denom=%q amount=%s), but its finalization at the expected sequence fails on L2: %v — every later deposit is stuck behind it", in, g("l1_denom"), g("l2_denom"), g("amount"), r2.Err), "denom", in.Denom, "amount", in.Amount)
	}
	if r := r2.Resp.(*opchildtypes.MsgFinalizeTokenDepositResponse); r.Result != opchildtypes.SUCCESS {
		return true, viol("every-deposit-l1-emits-is-finalizable", "%s: finalization answered %s", in, r.Result)
	}
	return true, nil
}

func c07Encode(in c07Input, plan map[int]string) string {
	var ps []string
	for i := 0; i < 200; i++ {
		if k, ok := plan[i]; ok {
			ps = append(ps, fmt.Sprintf("%d:%s", i, k))
		}
	}
	return fmt.Sprintf("%s|%s|%s|%s|%s|%s|%s|%s", in.Start, in.Rcpt, in.Amount, in.Denom, in.HookGas, in.OuterGas, in.Payload, strings.Join(ps, ","))
}

func c07Decode(s string) (c07Input, map[int]string, error) {
	p := strings.Split(s, "|")
	if len(p) != 8 {
		return c07Input{}, nil, fmt.Errorf("bad replay record %q", s)
	}
	in := c07Input{p[0], p[1], p[2], p[3], p[4], p[5], p[6]}
	plan := map[int]string{}
	if p[7] != "" {
		for _, e := range strings.Split(p[7], ",") {
			kv := strings.SplitN(e, ":", 2)
			i, err := strconv.Atoi(kv[0])
			if err != nil {
				return in, nil, err
			}
			plan[i] = kv[1]
		}
	}
	return in, plan, nil
}

func init() {
	register(&Check{ID: "C07", Level: "model_checking",
		Run: c07Run,
		Replay: func(kind string, path []string) ([]string, *engine.Violation, error) {
			if len(path) != 1 {
				return nil, nil, fmt.Errorf("C07 replay expects one record")
			}
			if strings.HasPrefix(path[0], "L1|") {
				p := strings.Split(path[0], "|")
				if len(p) != 5 {
					return nil, nil, fmt.Errorf("bad L1 replay record %q", path[0])
				}
				acc, v := newC07L1World().run(c07L1Input{p[1], p[2], p[3], p[4]})
				if v != nil {
					v.Path = path
				}
				return []string{fmt.Sprintf("accepted-by-l1=%v", acc)}, v, nil
			}
			in, plan, err := c07Decode(path[0])
			if err != nil {
				return nil, nil, err
			}
			cw := newC07World()
			if cw.setupViolation != nil {
				cw.setupViolation.Path = path
				return []string{"setup"}, cw.setupViolation, nil
			}
			obs, v := cw.exec(in, plan, nil)
			if v != nil {
				v.Path = path
			}
			return []string{obs.outcome}, v, nil
		},
	})
}
