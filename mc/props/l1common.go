package props

import (
	"crypto/sha256"
	"fmt"

	"cosmossdk.io/math"
	sdk "github.com/cosmos/cosmos-sdk/types"

	ophosttypes "github.com/initia-labs/OPinit/x/ophost/types"

	"verifmc/ref"
	"verifmc/world"
)

// wd is one L2 withdrawal as recorded by the L2 (the fields that enter the leaf).
type wd struct {
	Bridge, Seq uint64
	From, To    string
	Denom       string
	Amount      uint64
}

func (w wd) leaf() [32]byte { return ref.Leaf(w.Bridge, w.Seq, w.From, w.To, w.Denom, w.Amount) }
func (w wd) String() string {
	return fmt.Sprintf("wd{b%d #%d %s->%s %d%s}", w.Bridge, w.Seq, short(w.From), short(w.To), w.Amount, w.Denom)
}
func short(s string) string {
	if len(s) > 10 {
		return s[:4] + ".." + s[len(s)-4:]
	}
	return s
}

// wtree is a withdrawal tree built with the independent builder plus the output-root preimage.
type wtree struct {
	Name        string
	Ws          []wd
	Tree        *ref.Tree
	Version     byte
	BlockHash   []byte
	StorageRoot [32]byte
	OutputRoot  [32]byte
}

func mkTree(name string, ws []wd, version byte) *wtree {
	var leaves [][32]byte
	for _, w := range ws {
		leaves = append(leaves, w.leaf())
	}
	t := ref.BuildTree(leaves)
	bh := sha256.Sum256([]byte("blockhash/" + name))
	sr := t.Root()
	return &wtree{Name: name, Ws: ws, Tree: t, Version: version, BlockHash: bh[:], StorageRoot: sr, OutputRoot: ref.OutputRoot(version, sr[:], bh[:])}
}

func (t *wtree) index(w wd) int {
	for i, x := range t.Ws {
		if x == w {
			return i
		}
	}
	return -1
}

// claim builds the finalize message for leaf i of the tree against outputIndex.
func (t *wtree) claim(i int, outputIndex uint64, submitter string) *ophosttypes.MsgFinalizeTokenWithdrawal {
	w := t.Ws[i]
	return claimMsg(w, t.Tree.Proof(i), outputIndex, submitter, t.Version, t.StorageRoot[:], t.BlockHash)
}

func claimMsg(w wd, proof [][]byte, outputIndex uint64, submitter string, version byte, storageRoot, blockHash []byte) *ophosttypes.MsgFinalizeTokenWithdrawal {
	return ophosttypes.NewMsgFinalizeTokenWithdrawal(
		world.Addr(submitter).String(), w.Bridge, outputIndex, w.Seq, proof, w.From, w.To,
		sdk.NewCoin(w.Denom, math.NewIntFromUint64(w.Amount)), []byte{version}, append([]byte{}, storageRoot...), append([]byte{}, blockHash...))
}

func balanceOf(w *world.L1, ctx sdk.Context, addr sdk.AccAddress, denom string) int64 {
	return w.BK.GetBalance(ctx, addr, denom).Amount.Int64()
}

// mkTreeImpl builds the tree the way a prover using the repository's own helper functions would
// (leaf, node and output-root functions of x/ophost/types). On an unchanged tree it equals mkTree.
func mkTreeImpl(name string, ws []wd, version byte) *wtree {
	var leaves [][32]byte
	for _, w := range ws {
		leaves = append(leaves, ophosttypes.GenerateWithdrawalHash(w.Bridge, w.Seq, w.From, w.To, w.Denom, w.Amount))
	}
	t := ref.BuildTreeWith(leaves, ophosttypes.GenerateNodeHash)
	bh := sha256.Sum256([]byte("blockhash/" + name))
	sr := t.Root()
	return &wtree{Name: name, Ws: ws, Tree: t, Version: version, BlockHash: bh[:], StorageRoot: sr, OutputRoot: ophosttypes.GenerateOutputRoot(version, sr[:], bh[:])}
}
