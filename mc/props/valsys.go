package props

import (
	"bytes"
	"crypto/sha256"
	"encoding/hex"
	"fmt"
	"sort"
	"strings"

	abci "github.com/cometbft/cometbft/abci/types"
	cmttypes "github.com/cometbft/cometbft/types"

	tmproto "github.com/cometbft/cometbft/proto/tendermint/types"
	cryptocodec "github.com/cosmos/cosmos-sdk/crypto/codec"
	kmultisig "github.com/cosmos/cosmos-sdk/crypto/keys/multisig"
	cryptotypes "github.com/cosmos/cosmos-sdk/crypto/types"
	sdk "github.com/cosmos/cosmos-sdk/types"
	"github.com/cosmos/cosmos-sdk/types/query"

	opchild "github.com/initia-labs/OPinit/x/opchild"
	opchildtypes "github.com/initia-labs/OPinit/x/opchild/types"

	"verifmc/engine"
	"verifmc/world"
)

// Shared system for C13 (validator set = what the engine was told) and C14 (executor-change plan).

type vsPlan struct {
	height   uint64
	op, key  string
	execs    []string
	executed bool
	// facts at registration/execution time that known-finding predicates match on
	opHadRecordWithOtherKey bool
	keyUnderOtherOperator   bool
	atCap                   bool
}

type vsState struct {
	ctx       sdk.Context
	w         *world.L2
	mirror    *cmttypes.ValidatorSet // never mutated in place
	plans     map[uint64]opchildtypes.ExecutorChangePlan
	removed   map[string]bool // operators whose RemoveValidator was accepted in the current block
	histConst bool            // no block has begun with HistoricalEntries=0 so far (records are contiguous)
	execs     []string        // model: authorised bridge executors (account names)
	plan      *vsPlan
	plan2     *vsPlan          // a second plan, registered while the first was still pending, for a later height
	mirrorAt  map[int64]string // canonical mirror set as of BeginBlock(h) for recent heights
}

type vsSys struct {
	upper    bool // genesis operators spelled in upper case
	genesis  [][2]string
	withPlan bool
	depthTag string
	secp     bool // the chain's consensus parameters list secp256k1 as well; two of the three keys are secp256k1
}

var vsOps = []string{"o1", "o2", "o3"}
var vsKeys = []string{"k1", "k2", "k3"}

// on a chain whose consensus parameters list secp256k1 next to ed25519, two of the three keys are secp256k1
var vsSecpChainKeys = []string{"k1", "s2", "s3"}

// vsPub is the consensus key a key name stands for: k* ed25519, s* secp256k1.
func vsPub(name string) cryptotypes.PubKey {
	if strings.HasPrefix(name, "s") {
		return world.SecpKey("cons-" + name).PubKey()
	}
	return world.EdKey(name).PubKey()
}

func (y *vsSys) keyMenu() []string {
	if y.secp {
		return vsSecpChainKeys
	}
	return vsKeys
}

type vsAdd struct{ op, key string }
type vsRemove struct{ op string }
type vsParam struct {
	maxVals int // 0 = unchanged
	hist    int // -1 = unchanged
}
type vsNextBlock struct{}
type vsRegister struct {
	dh      uint64
	op, key string
	execs   []string
}

func canonSet(m map[string]int64) string {
	ks := make([]string, 0, len(m))
	for k, p := range m {
		ks = append(ks, fmt.Sprintf("%s:%d", k, p))
	}
	sort.Strings(ks)
	return strings.Join(ks, ",")
}

func mirrorMap(vs *cmttypes.ValidatorSet) map[string]int64 {
	m := map[string]int64{}
	for _, v := range vs.Validators {
		m[hex.EncodeToString(v.PubKey.Bytes())] = v.VotingPower
	}
	return m
}

func keyName(hexKey string) string {
	for _, k := range append(append([]string{}, vsKeys...), vsSecpChainKeys...) {
		if hex.EncodeToString(vsPub(k).Bytes()) == hexKey {
			return k
		}
	}
	return hexKey[:8]
}

func namedSet(m map[string]int64) string {
	n := map[string]int64{}
	for k, p := range m {
		n[keyName(k)] = p
	}
	return canonSet(n)
}

func (y *vsSys) Root() *vsState {
	w := world.NewL2(world.L2Options{
		Accounts:                  map[string]sdk.Coins{"e1": nil, "e2": nil, "admin": nil, "o1": nil, "o2": nil, "o3": nil},
		Executors:                 []string{"e1"},
		Validators:                y.genesis,
		UpperCaseGenesisOperators: y.upper,
		Params:                    func(p *opchildtypes.Params) { p.MaxValidators = 3; p.HistoricalEntries = 1 },
	})
	if y.secp {
		w.Ctx = w.Ctx.WithConsensusParams(tmproto.ConsensusParams{Validator: &tmproto.ValidatorParams{PubKeyTypes: []string{"ed25519", "secp256k1"}}})
	}
	vals, err := cmttypes.PB2TM.ValidatorUpdates(w.GenesisUpdates)
	if err != nil {
		panic(err)
	}
	s := &vsState{ctx: w.Ctx, w: w, mirror: cmttypes.NewValidatorSet(vals), plans: map[uint64]opchildtypes.ExecutorChangePlan{}, removed: map[string]bool{},
		histConst: true, execs: []string{"e1"}, mirrorAt: map[int64]string{}}
	return s
}

func (y *vsSys) Digest(s *vsState) [32]byte {
	return s.w.Digest(s.ctx, world.PlansBytes(s.plans), []byte(canonSet(mirrorMap(s.mirror))), []byte(fmt.Sprint(s.histConst)))
}

func (y *vsSys) Letters(s *vsState) []engine.Letter {
	var ls []engine.Letter
	for _, o := range y.opMenu() {
		for _, k := range y.keyMenu() {
			ls = append(ls, engine.Letter{Name: fmt.Sprintf("AddValidator(%s,%s)", o, k), Data: vsAdd{o, k}})
		}
	}
	for _, o := range y.opMenu() {
		ls = append(ls, engine.Letter{Name: fmt.Sprintf("RemoveValidator(%s)", o), Data: vsRemove{o}})
	}
	for _, m := range []int{1, 2, 3} {
		ls = append(ls, engine.Letter{Name: fmt.Sprintf("UpdateParams(MaxValidators=%d)", m), Data: vsParam{m, -1}})
	}
	for _, h := range []int{0, 1, 3} {
		ls = append(ls, engine.Letter{Name: fmt.Sprintf("UpdateParams(HistoricalEntries=%d)", h), Data: vsParam{0, h}})
	}
	ls = append(ls, engine.Letter{Name: "NextBlock", Data: vsNextBlock{}})
	if y.withPlan && s.plan != nil && !s.plan.executed && s.plan2 == nil {
		// a second plan while the first is pending, two blocks ahead (unless that height is taken)
		if h2 := uint64(s.ctx.BlockHeight()) + 2; h2 != s.plan.height {
			ls = append(ls, engine.Letter{Name: "RegisterSecondPlan(h+2,o2,k2,execs=[e1])", Data: vsRegister{2, "o2", "k2", []string{"e1"}}})
		}
	}
	if y.withPlan && s.plan == nil {
		for _, dh := range []uint64{0, 1} {
			for _, o := range vsOps {
				for _, k := range vsKeys {
					ls = append(ls, engine.Letter{Name: fmt.Sprintf("RegisterPlan(h+%d,%s,%s,execs=[e2])", dh, o, k), Data: vsRegister{dh, o, k, []string{"e2"}}})
				}
			}
			ls = append(ls, engine.Letter{Name: fmt.Sprintf("RegisterPlan(h+%d,o3,k3,execs=[e1,e2])", dh), Data: vsRegister{dh, "o3", "k3", []string{"e1", "e2"}}})
			ls = append(ls, engine.Letter{Name: fmt.Sprintf("RegisterPlan(h+%d,o3,k3,execs=[])", dh), Data: vsRegister{dh, "o3", "k3", nil}})
			ls = append(ls, engine.Letter{Name: fmt.Sprintf("RegisterPlan(h+%d,o3,k3,execs=[e2,e1,e2])", dh), Data: vsRegister{dh, "o3", "k3", []string{"e2", "e1", "e2"}}})
			// a decodable public key of a type no consensus engine key can be made from
			ls = append(ls, engine.Letter{Name: fmt.Sprintf("RegisterPlan(h+%d,o3,%s,execs=[e2])", dh, vsUnusableKey), Data: vsRegister{dh, "o3", vsUnusableKey, []string{"e2"}}})
			ls = append(ls, engine.Letter{Name: fmt.Sprintf("RegisterPlan(h+%d,o3,%s,execs=[e2])", dh, vsShortKey), Data: vsRegister{dh, "o3", vsShortKey, []string{"e2"}}})
			// a well-formed key of a type CometBFT knows but this chain's consensus parameters do not list
			ls = append(ls, engine.Letter{Name: fmt.Sprintf("RegisterPlan(h+%d,o3,%s,execs=[e2])", dh, vsSecpKey), Data: vsRegister{dh, "o3", vsSecpKey, []string{"e2"}}})
		}
	}
	return ls
}

func valOf(name string) string {
	if name == vsLongOp {
		// an operator whose address is 32 bytes long (a derived / module-style account), legal for the codec
		h := sha256.Sum256([]byte("operator " + name))
		return sdk.ValAddress(h[:]).String()
	}
	return sdk.ValAddress(world.Addr(name)).String()
}

// vsLongOp is the third operator on the chain with consensus keys of both types: its address has 32 bytes.
const vsLongOp = "oL"

func (y *vsSys) opMenu() []string {
	if y.secp {
		return []string{"o1", "o2", vsLongOp}
	}
	return vsOps
}

func opName(valAddr string) string {
	for _, o := range append(append([]string{}, vsOps...), vsLongOp) {
		if valOf(o) == valAddr {
			return o
		}
	}
	return valAddr
}

func (s *vsState) child(ctx sdk.Context) *vsState {
	return &vsState{ctx: ctx, w: s.w, mirror: s.mirror, plans: s.plans, removed: s.removed, histConst: s.histConst, execs: s.execs, plan: s.plan, plan2: s.plan2, mirrorAt: s.mirrorAt}
}

// vsUnusableKey names a 1-of-1 multisig public key: a registered, decodable cryptotypes.PubKey that
// cannot be converted into a CometBFT validator key.
const vsUnusableKey = "multisig(k3)"

// vsShortKey names an ed25519 public key of the wrong length (3 bytes): it decodes as JSON and as a
// registered key type, but no consensus key or address can be made from it.
const vsShortKey = "ed25519(3 bytes)"

// vsSecpKey names a secp256k1 consensus key: convertible into a CometBFT key, but the chain's
// consensus parameters (ed25519 only, CometBFT's default) do not list its type.
const vsSecpKey = "secp256k1(k3)"

func pubKeyJSON(w *world.L2, key string) string {
	if key == vsSecpKey {
		bz, err := w.Enc.Marshaler.MarshalInterfaceJSON(world.SecpKey("cons-k3").PubKey())
		if err != nil {
			panic(err)
		}
		return string(bz)
	}
	if key == vsShortKey {
		return `{"@type":"/cosmos.crypto.ed25519.PubKey","key":"AAEC"}`
	}
	var pk cryptotypes.PubKey = world.EdKey(key).PubKey()
	if key == vsUnusableKey {
		pk = kmultisig.NewLegacyAminoPubKey(1, []cryptotypes.PubKey{world.EdKey("k3").PubKey()})
	}
	bz, err := w.Enc.Marshaler.MarshalInterfaceJSON(pk)
	if err != nil {
		panic(err)
	}
	return string(bz)
}

// stateSets reads the positive-power validator set and the last-validator powers from state,
// both keyed by consensus key.
func (s *vsState) stateSets(ctx sdk.Context) (positive, last map[string]int64, zombies []string, v *engine.Violation) {
	positive, last = map[string]int64{}, map[string]int64{}
	vals, err := s.w.K.GetAllValidators(ctx)
	if err != nil {
		return nil, nil, nil, viol("state-readable", "GetAllValidators: %v", err)
	}
	byOp := map[string]opchildtypes.Validator{}
	for _, val := range vals {
		byOp[canonOp(val.OperatorAddress)] = val
		pk, err := val.ConsPubKey()
		if err != nil {
			return nil, nil, nil, viol("state-readable", "ConsPubKey: %v", err)
		}
		tmpk, err := cryptocodec.ToCmtPubKeyInterface(pk)
		if err != nil {
			return nil, nil, nil, viol("state-readable", "ToCmtPubKey: %v", err)
		}
		if val.ConsPower > 0 {
			positive[hex.EncodeToString(tmpk.Bytes())] = val.ConsPower
		} else {
			zombies = append(zombies, opName(canonOp(val.OperatorAddress)))
		}
	}
	err = s.w.K.IterateLastValidatorPowers(ctx, func(op []byte, power int64) (bool, error) {
		val, ok := byOp[sdk.ValAddress(op).String()]
		if !ok {
			last["missing-validator-"+hex.EncodeToString(op)] = power
			return false, nil
		}
		pk, _ := val.ConsPubKey()
		tmpk, _ := cryptocodec.ToCmtPubKeyInterface(pk)
		last[hex.EncodeToString(tmpk.Bytes())] = power
		return false, nil
	})
	if err != nil {
		return nil, nil, nil, viol("state-readable", "IterateLastValidatorPowers: %v", err)
	}
	return positive, last, zombies, nil
}

func (y *vsSys) Step(s *vsState, l engine.Letter) (*vsState, string, *engine.Violation) {
	ctx, _ := s.ctx.CacheContext()
	c := s.child(ctx)
	s.w.K.ExecutorChangePlans = world.ClonePlans(s.plans)
	defer func() { s.w.K.ExecutorChangePlans = map[uint64]opchildtypes.ExecutorChangePlan{} }()
	before := y.Digest(s)
	switch d := l.Data.(type) {
	case vsAdd:
		msg, err := opchildtypes.NewMsgAddValidator(d.op, s.w.Authority, valOf(d.op), vsPub(d.key))
		if err != nil {
			panic(err)
		}
		res := s.w.Deliver(ctx, msg)
		if res.Panicked {
			return c, "panic", viol("handler-panic", "AddValidator panicked: %s", res.PanicVal)
		}
		if !res.OK() {
			if y.Digest(c) != before {
				return c, "rejected", viol("rejected-message-has-no-effect", "rejected AddValidator changed state")
			}
			return c, "rejected", nil
		}
		return c, "accepted", nil
	case vsRemove:
		msg, _ := opchildtypes.NewMsgRemoveValidator(s.w.Authority, valOf(d.op))
		res := s.w.Deliver(ctx, msg)
		if res.Panicked {
			return c, "panic", viol("handler-panic", "RemoveValidator panicked: %s", res.PanicVal)
		}
		if !res.OK() {
			if y.Digest(c) != before {
				return c, "rejected", viol("rejected-message-has-no-effect", "rejected RemoveValidator changed state")
			}
			return c, "rejected", nil
		}
		nr := map[string]bool{d.op: true}
		for k := range s.removed {
			nr[k] = true
		}
		c.removed = nr
		return c, "accepted", nil
	case vsParam:
		p, err := s.w.K.GetParams(ctx)
		if err != nil {
			panic(err)
		}
		if d.maxVals > 0 {
			p.MaxValidators = uint32(d.maxVals)
		}
		if d.hist >= 0 {
			p.HistoricalEntries = uint32(d.hist)
		}
		res := s.w.Deliver(ctx, opchildtypes.NewMsgUpdateParams(s.w.Authority, &p))
		if res.Panicked {
			return c, "panic", viol("handler-panic", "UpdateParams panicked: %s", res.PanicVal)
		}
		if !res.OK() {
			c.histConst = s.histConst
			if y.Digest(c) != before {
				return c, "rejected", viol("rejected-message-has-no-effect", "rejected UpdateParams changed state")
			}
			return c, "rejected", nil
		}
		return c, "accepted", nil
	case vsRegister:
		h := uint64(ctx.BlockHeight()) + d.dh
		var execs []string
		for _, e := range d.execs {
			execs = append(execs, world.Addr(e).String())
		}
		// facts for the oracle / known-finding predicates, taken before registration
		pl := &vsPlan{height: h, op: d.op, key: d.key, execs: d.execs}
		// L1 proposal ids and L2 heights need not be ordered alike: the first plan comes from proposal 2,
		// the second one (always for a later height) from proposal 1, which passed earlier on L1
		pid := uint64(2)
		if s.plan != nil {
			pid = 1
		}
		err := s.w.K.RegisterExecutorChangePlan(pid, h, valOf(d.op), "planval", pubKeyJSON(s.w, d.key), "info", execs)
		if err != nil && (d.key == vsUnusableKey || d.key == vsShortKey || d.key == vsSecpKey) {
			return c, "rejected-unusable-key", nil // refusing a key the engine cannot use is fine
		}
		if err != nil {
			return c, "rejected", viol("well-formed-plan-is-registered", "registration of a well-formed plan failed: %v", err)
		}
		c.plans = world.ClonePlans(s.w.K.ExecutorChangePlans)
		if s.plan != nil {
			c.plan2 = pl
			return c, "registered-second", nil
		}
		c.plan = pl
		return c, "registered", nil
	case vsNextBlock:
		return y.nextBlock(s, c)
	}
	panic("unknown letter")
}

func (y *vsSys) nextBlock(s, c *vsState) (*vsState, string, *engine.Violation) {
	ctx := c.ctx
	h := ctx.BlockHeight()
	// the plan due at this height, if any (at most two plans exist, at different heights)
	var due *vsPlan
	for _, p := range []*vsPlan{s.plan, s.plan2} {
		if p != nil && !p.executed && p.height == uint64(h) {
			due = p
		}
	}
	planNow := due != nil
	tags := []string{}
	var pl vsPlan
	if due != nil {
		pl = *due
	}
	if planNow {
		// structural facts about the witness (what the plan collides with), read from state before EndBlock
		opAddr, _ := sdk.ValAddressFromBech32(valOf(pl.op))
		if val, found := s.w.K.GetValidator(ctx, opAddr); found {
			pk, _ := val.ConsPubKey()
			if !bytes.Equal(pk.Bytes(), vsPub(pl.key).Bytes()) {
				pl.opHadRecordWithOtherKey = true
			}
		}
		if val, found := s.w.K.GetValidatorByConsAddr(ctx, sdk.GetConsAddress(vsPub(pl.key))); found && canonOp(val.OperatorAddress) != valOf(pl.op) {
			pl.keyUnderOtherOperator = true
		}
		all, _ := s.w.K.GetAllValidators(ctx)
		maxv, _ := s.w.K.MaxValidators(ctx)
		if _, found := s.w.K.GetValidator(ctx, opAddr); !found && len(all) >= int(maxv) {
			pl.atCap = true
		}
		tags = append(tags, "plan-key-type-not-in-consensus-params", fmt.Sprint(pl.key == vsSecpKey))
		tags = append(tags, "plan-operator-has-record-with-other-key", fmt.Sprint(pl.opHadRecordWithOtherKey),
			"plan-key-under-other-operator", fmt.Sprint(pl.keyUnderOtherOperator), "plan-at-validator-cap", fmt.Sprint(pl.atCap))
	}
	T := func(v *engine.Violation) *engine.Violation { return tagged(v, tags...) }

	var updates []abci.ValidatorUpdate
	var err error
	var pan any
	func() {
		defer func() { pan = recover() }()
		updates, err = opchild.EndBlocker(ctx, s.w.K)
	}()
	if pan != nil {
		return c, "endblock-panic", T(viol("block-processing-never-aborts", "EndBlocker panicked at height %d: %v", h, pan))
	}
	if err != nil {
		return c, "endblock-error", T(viol("block-processing-never-aborts", "EndBlocker failed at height %d: %v", h, err))
	}
	// the batch must be one the consensus engine accepts
	mm := mirrorMap(s.mirror)
	seen := map[string]bool{}
	for _, u := range updates {
		kb := u.PubKey.GetEd25519()
		if kb == nil && y.secp {
			kb = u.PubKey.GetSecp256K1()
		}
		if kb == nil {
			return c, "bad-batch", T(viol("batch-accepted-by-consensus-engine", "update with a key of a type the chain's consensus parameters do not list (%T); CometBFT refuses the batch", u.PubKey.Sum))
		}
		k := hex.EncodeToString(kb)
		if seen[k] {
			return c, "bad-batch", T(viol("batch-accepted-by-consensus-engine", "key %s twice in one batch (%d updates)", keyName(k), len(updates)))
		}
		seen[k] = true
		if u.Power < 0 {
			return c, "bad-batch", T(viol("batch-accepted-by-consensus-engine", "negative power for %s", keyName(k)))
		}
		if _, known := mm[k]; u.Power == 0 && !known {
			return c, "bad-batch", T(viol("batch-accepted-by-consensus-engine", "removal of %s which the engine does not hold", keyName(k)))
		}
	}
	tmvals, err := cmttypes.PB2TM.ValidatorUpdates(updates)
	if err != nil {
		return c, "bad-batch", T(viol("batch-accepted-by-consensus-engine", "PB2TM: %v", err))
	}
	nm := s.mirror.Copy()
	if err := nm.UpdateWithChangeSet(tmvals); err != nil {
		if strings.Contains(err.Error(), "would result in empty set") {
			// Removing the last validator is outside the property's acceptance clause (three listed
			// conditions): classified, path stopped — but only if the state really has no validator
			// with positive power left and no plan was due; a batch that empties the engine's set while
			// the state still holds a positive-power validator (e.g. the plan validator) is a bad batch.
			if pos, _, _, _ := s.stateSets(ctx); len(pos) == 0 && !planNow {
				return c, "engine-rejected-empty-set", &engine.Violation{Clause: "cut:engine-rejected-empty-set", Msg: "removing the last validator: CometBFT refuses an empty set"}
			}
		}
		return c, "bad-batch", T(viol("batch-accepted-by-consensus-engine", "CometBFT rejects the batch: %v", err))
	}
	c.mirror = nm
	pos, last, _, v := s.stateSets(ctx)
	if v != nil {
		return c, "error", v
	}
	ms := canonSet(mirrorMap(nm))
	if ms != canonSet(pos) {
		return c, "mismatch", T(viol("engine-set-equals-positive-power-validators", "after EndBlock(%d): engine holds {%s}, state's positive-power validators {%s}", h, namedSet(mirrorMap(nm)), namedSet(pos)))
	}
	if ms != canonSet(last) {
		return c, "mismatch", T(viol("engine-set-equals-last-validator-powers", "after EndBlock(%d): engine holds {%s}, last-validator powers {%s}", h, namedSet(mirrorMap(nm)), namedSet(last)))
	}
	maxv, _ := s.w.K.MaxValidators(ctx)
	if len(last) > int(maxv) {
		return c, "mismatch", viol("bonded-never-exceed-maximum", "%d bonded validators with MaxValidators=%d", len(last), maxv)
	}
	// a validator removed in this block is gone from state by the end of the block
	qv, err := s.w.Q.Validators(ctx, &opchildtypes.QueryValidatorsRequest{})
	if err != nil {
		return c, "error", viol("state-readable", "Validators query: %v", err)
	}
	for _, val := range qv.Validators {
		if s.removed[opName(canonOp(val.OperatorAddress))] && !(planNow && opName(canonOp(val.OperatorAddress)) == pl.op) {
			bonded := "never bonded"
			if pk, err := val.ConsPubKey(); err == nil {
				if t, err := cryptocodec.ToCmtPubKeyInterface(pk); err == nil {
					if _, was := mirrorMap(s.mirror)[hex.EncodeToString(t.Bytes())]; was {
						bonded = "bonded before"
					}
				}
			}
			return c, "zombie", tagged(T(viol("removed-validator-gone-by-end-of-block", "%s was removed in block %d but is still in Query/Validators after EndBlock (power %d, %s)", opName(canonOp(val.OperatorAddress)), h, val.ConsPower, bonded)), "zombie", bonded)
		}
	}
	if v := y.indexes(c); v != nil {
		return c, "index", T(v)
	}
	outcome := "ok"
	if planNow {
		np := pl
		np.executed = true
		if due == s.plan2 {
			c.plan2 = &np
		} else {
			c.plan = &np
		}
		c.execs = pl.execs
		want := map[string]int64{hex.EncodeToString(vsPub(pl.key).Bytes()): 1}
		if canonSet(mirrorMap(nm)) != canonSet(want) {
			return c, "plan", T(viol("plan-validator-is-the-only-validator", "after EndBlock(%d) the engine holds {%s}, expected exactly {%s:1}", h, namedSet(mirrorMap(nm)), pl.key))
		}
		// whatever else is registered for later heights stays registered
		for _, p := range []*vsPlan{s.plan, s.plan2} {
			if p != nil && p != due && !p.executed {
				if _, ok := s.w.K.ExecutorChangePlans[p.height]; !ok {
					return c, "plan", T(viol("plan-takes-effect-at-its-height", "executing the plan of height %d dropped the plan registered for height %d", h, p.height))
				}
			}
		}
		outcome = "plan-executed"
	}
	c.removed = map[string]bool{}
	// executors must be the model's list at every block boundary (plan list after execution only)
	if v := y.checkExecs(c); v != nil {
		return c, "execs", T(v)
	}
	// next block: height+1, BeginBlock
	nctx := ctx.WithBlockHeight(h + 1).WithBlockTime(ctx.BlockTime().Add(5e9))
	hdr := nctx.BlockHeader()
	hdr.Height = h + 1
	hdr.Time = nctx.BlockTime()
	nctx = nctx.WithBlockHeader(hdr)
	func() {
		defer func() { pan = recover() }()
		err = opchild.BeginBlocker(nctx, s.w.K)
	}()
	if pan != nil {
		return c, "beginblock-panic", T(viol("block-processing-never-aborts", "BeginBlocker panicked at height %d: %v", h+1, pan))
	}
	if err != nil {
		return c, "beginblock-error", T(viol("block-processing-never-aborts", "BeginBlocker failed at height %d: %v", h+1, err))
	}
	c.ctx = nctx
	// historical record at the new height lists exactly the bonded set (as of BeginBlock)
	entries, _ := s.w.K.HistoricalEntries(nctx)
	hi, herr := s.w.K.GetHistoricalInfo(nctx, h+1)
	if (herr == nil) != (entries > 0) {
		return c, "hist", viol("historical-record-lists-bonded-set", "HistoricalEntries=%d but record at height %d exists=%v", entries, h+1, herr == nil)
	}
	if herr == nil {
		got := map[string]int64{}
		for _, hv := range hi.Valset {
			pk, err := hv.ConsPubKey()
			if err != nil {
				return c, "hist", viol("historical-record-lists-bonded-set", "record holds an undecodable key: %v", err)
			}
			t, _ := cryptocodec.ToCmtPubKeyInterface(pk)
			got[hex.EncodeToString(t.Bytes())] = hv.Tokens.Quo(sdk.DefaultPowerReduction).Int64()
		}
		if canonSet(got) != ms {
			return c, "hist", viol("historical-record-lists-bonded-set", "record at %d lists {%s}, bonded set is {%s}", h+1, namedSet(got), namedSet(mirrorMap(nm)))
		}
		if hi.Header.Height != h+1 {
			return c, "hist", viol("historical-record-lists-bonded-set", "record at %d carries header height %d", h+1, hi.Header.Height)
		}
	}
	if entries == 0 {
		c.histConst = false
	}
	if c.histConst {
		// every block so far stored a record, so the records are contiguous and the pruning walk
		// reaches all of them, also after the retention was lowered by several steps at once:
		// stored heights ⊆ (h+1-entries, h+1]
		var bad []int64
		it, err := s.w.K.HistoricalInfos.Iterate(nctx, nil)
		if err == nil {
			for ; it.Valid(); it.Next() {
				k, _ := it.Key()
				if k <= h+1-int64(entries) || k > h+1 {
					bad = append(bad, k)
				}
			}
			it.Close()
		}
		if len(bad) > 0 {
			return c, "hist", viol("historical-records-within-retention", "at height %d with HistoricalEntries=%d records exist for heights %v", h+1, entries, bad)
		}
	}
	return c, outcome, nil
}

func (y *vsSys) checkExecs(s *vsState) *engine.Violation {
	p, err := s.w.K.GetParams(s.ctx)
	if err != nil {
		return viol("state-readable", "GetParams: %v", err)
	}
	var want []string
	for _, e := range s.execs {
		want = append(want, world.Addr(e).String())
	}
	if strings.Join(p.BridgeExecutors, ",") != strings.Join(want, ",") {
		return viol("executors-are-exactly-the-plan-list", "bridge executors %v, expected %v", p.BridgeExecutors, want)
	}
	return nil
}

// indexes: operator and consensus-key indexes are one-to-one with the stored validators.
func (y *vsSys) indexes(s *vsState) *engine.Violation {
	ctx := s.ctx
	vals, err := s.w.K.GetAllValidators(ctx)
	if err != nil {
		return viol("state-readable", "GetAllValidators: %v", err)
	}
	n := 0
	for _, val := range vals {
		ca, err := val.GetConsAddr()
		if err != nil {
			return viol("indexes-one-to-one", "validator %s has no cons addr: %v", opName(canonOp(val.OperatorAddress)), err)
		}
		op, err := s.w.K.ValidatorsByConsAddr.Get(ctx, ca)
		if err != nil {
			return viol("indexes-one-to-one", "validator %s has no consensus-key index entry", opName(canonOp(val.OperatorAddress)))
		}
		if sdk.ValAddress(op).String() != canonOp(val.OperatorAddress) {
			return viol("indexes-one-to-one", "consensus-key index of %s points to %s", opName(canonOp(val.OperatorAddress)), opName(sdk.ValAddress(op).String()))
		}
		qr, err := s.w.Q.Validator(ctx, &opchildtypes.QueryValidatorRequest{ValidatorAddr: val.OperatorAddress})
		if err != nil || !qr.Validator.Equal(&val) {
			return viol("indexes-one-to-one", "Validator query for %s disagrees with the store (err=%v)", opName(canonOp(val.OperatorAddress)), err)
		}
		// the staking-style accessors other modules use (ibc, upgrade) answer the same
		vi := s.w.K.ValidatorByConsAddr(ctx, ca)
		if vi == nil || canonOp(vi.GetOperator()) != canonOp(val.OperatorAddress) {
			return viol("indexes-one-to-one", "ValidatorByConsAddr(key of %s) answers %v", opName(canonOp(val.OperatorAddress)), vi)
		}
		opBz, _ := sdk.ValAddressFromBech32(canonOp(val.OperatorAddress))
		if vo := s.w.K.Validator(ctx, opBz); vo == nil || canonOp(vo.GetOperator()) != canonOp(val.OperatorAddress) || vo.GetConsensusPower() != val.ConsPower {
			return viol("indexes-one-to-one", "Validator(%s) answers %v", opName(canonOp(val.OperatorAddress)), vo)
		}
		n++
	}
	var walked []string
	_ = s.w.K.IterateValidators(ctx, func(v opchildtypes.ValidatorI) (bool, error) {
		walked = append(walked, canonOp(v.GetOperator()))
		return false, nil
	})
	var lastWalk, lastStore []string
	if err := s.w.K.IterateLastValidators(ctx, func(v opchildtypes.ValidatorI, power int64) (bool, error) {
		lastWalk = append(lastWalk, fmt.Sprintf("%s:%d", canonOp(v.GetOperator()), power))
		return false, nil
	}); err != nil {
		return viol("indexes-one-to-one", "IterateLastValidators: %v", err)
	}
	_ = s.w.K.IterateLastValidatorPowers(ctx, func(op []byte, power int64) (bool, error) {
		lastStore = append(lastStore, fmt.Sprintf("%s:%d", sdk.ValAddress(op).String(), power))
		p, err := s.w.K.GetLastValidatorPower(ctx, op)
		if err != nil || p != power {
			lastStore = append(lastStore, fmt.Sprintf("GetLastValidatorPower(%s)=%d,%v", sdk.ValAddress(op).String(), p, err))
		}
		return false, nil
	})
	if strings.Join(lastWalk, ",") != strings.Join(lastStore, ",") {
		return viol("indexes-one-to-one", "IterateLastValidators lists %v, the last-validator-power table holds %v", lastWalk, lastStore)
	}
	// Query/Validators, whole and paged one by one, lists exactly the stored validators
	var stored []string
	for _, val := range vals {
		stored = append(stored, canonOp(val.OperatorAddress))
	}
	for _, lim := range []uint64{0, 1, 2} {
		var got []string
		var key []byte
		for guard := 0; guard < 64; guard++ {
			req := &opchildtypes.QueryValidatorsRequest{}
			if lim > 0 {
				req.Pagination = &query.PageRequest{Key: key, Limit: lim}
			}
			qv, err := s.w.Q.Validators(ctx, req)
			if err != nil {
				return viol("state-readable", "Validators query (limit %d): %v", lim, err)
			}
			for _, qval := range qv.Validators {
				got = append(got, canonOp(qval.OperatorAddress))
			}
			if lim == 0 || qv.Pagination == nil || len(qv.Pagination.NextKey) == 0 {
				break
			}
			key = qv.Pagination.NextKey
		}
		if lim == 0 && strings.Join(walked, ",") != strings.Join(stored, ",") {
			return viol("indexes-one-to-one", "IterateValidators walks %v, the store holds %v", walked, stored)
		}
		if strings.Join(got, ",") != strings.Join(stored, ",") {
			return viol("indexes-one-to-one", "Query/Validators (page size %d) lists %d validators %v, the store holds %d", lim, len(got), got, len(stored))
		}
	}
	m := 0
	var v *engine.Violation
	_ = s.w.K.ValidatorsByConsAddr.Walk(ctx, nil, func(ca []byte, op []byte) (bool, error) {
		m++
		val, found := s.w.K.GetValidator(ctx, op)
		if !found {
			v = viol("indexes-one-to-one", "consensus-key index entry points to missing operator %s", opName(sdk.ValAddress(op).String()))
			return true, nil
		}
		vca, _ := val.GetConsAddr()
		if !bytes.Equal(vca, ca) {
			v = viol("indexes-one-to-one", "stale consensus-key index entry for operator %s", opName(canonOp(val.OperatorAddress)))
			return true, nil
		}
		return false, nil
	})
	if v != nil {
		return v
	}
	if n != m {
		return viol("indexes-one-to-one", "%d validators but %d consensus-key index entries", n, m)
	}
	return nil
}

func (y *vsSys) Check(s *vsState) *engine.Violation {
	if v := y.indexes(s); v != nil {
		return v
	}
	if v := y.checkExecs(s); v != nil {
		return v
	}
	if v := y.keyTypeProbe(s); v != nil {
		return v
	}
	if y.withPlan {
		return y.registrationProbes(s)
	}
	return nil
}

// keyTypeProbe: on a branch, governance adds a validator whose consensus key is of a type the chain's
// consensus parameters do not list (secp256k1 on an ed25519 chain) and the block ends: no update the
// engine would refuse may come out.
func (y *vsSys) keyTypeProbe(s *vsState) *engine.Violation {
	if y.secp {
		return nil // both key types are listed on this chain
	}
	for _, o := range vsOps {
		opAddr, _ := sdk.ValAddressFromBech32(valOf(o))
		if _, found := s.w.K.GetValidator(s.ctx, opAddr); found {
			continue
		}
		ctx, _ := s.ctx.CacheContext()
		m, err := opchildtypes.NewMsgAddValidator("secp", s.w.Authority, valOf(o), world.SecpKey("cons-"+o).PubKey())
		if err != nil {
			panic(err)
		}
		res := s.w.Deliver(ctx, m)
		if !res.OK() {
			return nil // refused, as the parameters demand
		}
		var ups []abci.ValidatorUpdate
		var pan any
		func() {
			defer func() { pan = recover() }()
			ups, err = opchild.EndBlocker(ctx, s.w.K)
		}()
		if pan != nil || err != nil {
			return viol("block-processing-never-aborts", "AddValidator(%s, secp256k1 key) was accepted and the end blocker then failed: %v %v", o, pan, err)
		}
		for _, u := range ups {
			if u.PubKey.GetEd25519() == nil {
				return viol("batch-accepted-by-consensus-engine", "AddValidator(%s, secp256k1 key) was accepted on a chain whose consensus parameters list ed25519 only; the end-block batch carries a %T key, which CometBFT refuses", o, u.PubKey.Sum)
			}
		}
		return nil
	}
	return nil
}

// registrationProbes: malformed plans are rejected without side effects (Mode P in every state).
func (y *vsSys) registrationProbes(s *vsState) *engine.Violation {
	k := s.w.K
	k.ExecutorChangePlans = world.ClonePlans(s.plans)
	defer func() { k.ExecutorChangePlans = map[uint64]opchildtypes.ExecutorChangePlan{} }()
	h := uint64(s.ctx.BlockHeight()) + 5
	good := pubKeyJSON(s.w, "k3")
	e := []string{world.Addr("e2").String()}
	type probe struct {
		name string
		f    func() error
	}
	probes := []probe{
		{"proposal-id-0", func() error { return k.RegisterExecutorChangePlan(0, h, valOf("o3"), "m", good, "i", e) }},
		{"height-0", func() error { return k.RegisterExecutorChangePlan(1, 0, valOf("o3"), "m", good, "i", e) }},
		{"undecodable-key", func() error {
			return k.RegisterExecutorChangePlan(1, h, valOf("o3"), "m", `{"@type":"/cosmos.crypto.ed25519.PubKey","key":"!!"}`, "i", e)
		}},
		{"undecodable-key[multisig with a null member]", func() error {
			return k.RegisterExecutorChangePlan(1, h, valOf("o3"), "m", `{"@type":"/cosmos.crypto.multisig.LegacyAminoPubKey","threshold":1,"public_keys":[null]}`, "i", e)
		}},
		{"undecodable-key[multisig whose member has an unknown type]", func() error {
			return k.RegisterExecutorChangePlan(1, h, valOf("o3"), "m", `{"@type":"/cosmos.crypto.multisig.LegacyAminoPubKey","threshold":1,"public_keys":[{"@type":"/no.such.Key","key":"AA=="}]}`, "i", e)
		}},
		{"undecodable-key[multisig without members]", func() error {
			return k.RegisterExecutorChangePlan(1, h, valOf("o3"), "m", `{"@type":"/cosmos.crypto.multisig.LegacyAminoPubKey","threshold":0,"public_keys":[]}`, "i", e)
		}},
		{"undecodable-key[unknown type url]", func() error {
			return k.RegisterExecutorChangePlan(1, h, valOf("o3"), "m", `{"@type":"/no.such.Key","key":"AA=="}`, "i", e)
		}},
		{"undecodable-key[type that is not a public key]", func() error {
			return k.RegisterExecutorChangePlan(1, h, valOf("o3"), "m", `{"@type":"/opinit.opchild.v1.MsgUpdateParams"}`, "i", e)
		}},
		{"undecodable-key[no type]", func() error {
			return k.RegisterExecutorChangePlan(1, h, valOf("o3"), "m", `{"key":"AA=="}`, "i", e)
		}},
		{"undecodable-key[null]", func() error { return k.RegisterExecutorChangePlan(1, h, valOf("o3"), "m", `null`, "i", e) }},
		{"undecodable-key[empty object]", func() error { return k.RegisterExecutorChangePlan(1, h, valOf("o3"), "m", `{}`, "i", e) }},
		{"undecodable-key[array]", func() error { return k.RegisterExecutorChangePlan(1, h, valOf("o3"), "m", `[]`, "i", e) }},
		{"undecodable-key[empty string]", func() error { return k.RegisterExecutorChangePlan(1, h, valOf("o3"), "m", ``, "i", e) }},
		{"undecodable-key[ed25519 with a null key]", func() error {
			return k.RegisterExecutorChangePlan(1, h, valOf("o3"), "m", `{"@type":"/cosmos.crypto.ed25519.PubKey","key":null}`, "i", e)
		}},
		{"undecodable-key[ed25519 without a key]", func() error {
			return k.RegisterExecutorChangePlan(1, h, valOf("o3"), "m", `{"@type":"/cosmos.crypto.ed25519.PubKey"}`, "i", e)
		}},
		{"undecodable-key[valid key followed by garbage]", func() error {
			return k.RegisterExecutorChangePlan(1, h, valOf("o3"), "m", good+"}}]] garbage", "i", e)
		}},
		{"undecodable-key[valid key followed by one character]", func() error {
			return k.RegisterExecutorChangePlan(1, h, valOf("o3"), "m", good+"x", "i", e)
		}},
		{"undecodable-key[two keys glued together]", func() error {
			return k.RegisterExecutorChangePlan(1, h, valOf("o3"), "m", good+pubKeyJSON(s.w, "k2"), "i", e)
		}},
		{"key-not-json", func() error { return k.RegisterExecutorChangePlan(1, h, valOf("o3"), "m", "garbage", "i", e) }},
		{"bad-operator", func() error { return k.RegisterExecutorChangePlan(1, h, "notanaddress", "m", good, "i", e) }},
		{"operator-with-account-prefix", func() error { return k.RegisterExecutorChangePlan(1, h, world.Addr("o3").String(), "m", good, "i", e) }},
		{"bad-executor-last", func() error {
			return k.RegisterExecutorChangePlan(1, h, valOf("o3"), "m", good, "i", []string{world.Addr("e2").String(), "nope"})
		}},
		{"bad-executor-first", func() error {
			return k.RegisterExecutorChangePlan(1, h, valOf("o3"), "m", good, "i", []string{"nope", world.Addr("e2").String()})
		}},
		{"bad-executor-middle", func() error {
			return k.RegisterExecutorChangePlan(1, h, valOf("o3"), "m", good, "i", []string{world.Addr("e1").String(), "cosmos1nope", world.Addr("e2").String()})
		}},
		{"executor-with-validator-prefix", func() error {
			return k.RegisterExecutorChangePlan(1, h, valOf("o3"), "m", good, "i", []string{valOf("o1"), world.Addr("e2").String()})
		}},
		{"bad-executor-only", func() error {
			return k.RegisterExecutorChangePlan(1, h, valOf("o3"), "m", good, "i", []string{""})
		}},
	}
	for hh, pl := range s.plans {
		hh, pid := hh, pl.ProposalID
		probes = append(probes, probe{"duplicate-height", func() error { return k.RegisterExecutorChangePlan(pid+1, hh, valOf("o3"), "m", good, "i", e) }})
		probes = append(probes, probe{"duplicate-height-same-proposal-id", func() error {
			return k.RegisterExecutorChangePlan(pid, hh, valOf("o1"), "other", pubKeyJSON(s.w, "k1"), "other", []string{world.Addr("e1").String()})
		}})
	}
	before := world.PlansBytes(k.ExecutorChangePlans)
	d0 := s.w.Digest(s.ctx)
	for _, p := range probes {
		err, pv := func() (err error, pv any) {
			defer func() { pv = recover() }()
			return p.f(), nil
		}()
		if pv != nil {
			return tagged(viol("malformed-plan-is-rejected", "malformed plan (%s) is not rejected: registration panics (%v); registration runs from the upgrade wiring outside any transaction, nothing recovers it", p.name, pv), "probe", p.name, "how", "panic")
		}
		if err == nil {
			return tagged(viol("malformed-plan-is-rejected", "malformed plan (%s) was registered", p.name), "probe", p.name)
		}
		if !bytes.Equal(world.PlansBytes(k.ExecutorChangePlans), before) {
			return tagged(viol("malformed-plan-is-rejected", "rejected plan (%s) left side effects", p.name), "probe", p.name)
		}
	}
	// the stores are digested once for the whole family (registration has no context to write through);
	// only if something changed is the culprit looked for
	if s.w.Digest(s.ctx) != d0 {
		for _, p := range probes {
			d1 := s.w.Digest(s.ctx)
			func() {
				defer func() { _ = recover() }()
				_ = p.f()
			}()
			if s.w.Digest(s.ctx) != d1 {
				return tagged(viol("malformed-plan-is-rejected", "rejected plan (%s) left side effects", p.name), "probe", p.name)
			}
		}
		return tagged(viol("malformed-plan-is-rejected", "a rejected plan of the probe family left side effects in the stores"), "probe", "family")
	}
	return nil
}

// canonOp returns the canonical spelling of an operator address (the stores keep the spelling they were given).
func canonOp(s string) string {
	b, err := sdk.ValAddressFromBech32(s)
	if err != nil {
		return s
	}
	return sdk.ValAddress(b).String()
}
