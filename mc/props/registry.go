// Package props holds, per property, the alphabet, the reference model and the oracle.
package props

import (
	"fmt"
	"sort"

	"verifmc/engine"
)

type Check struct {
	ID    string
	Level string // evidence level
	Run   func(rc *engine.RunCtx) *engine.Result
	// Replay re-executes a recorded path of kind `kind` without the explorer and returns the
	// violation it reproduces (nil if none).
	Replay func(kind string, path []string) ([]string, *engine.Violation, error)
	// FreshProcessReplay: the property is about independence from what the process did earlier, so
	// a violation is confirmed by replaying it in two fresh processes, not inside this one.
	FreshProcessReplay bool
	// SameFinding, if set, says which clauses count as the same finding when a replay is compared with
	// the run that produced the witness. C18 needs it: a transition that depends on something random
	// (Go's map order inside a dependency) disagrees with itself in every replay, but which of the
	// compared executions differ first - the repeat, the second node, the restarted node - is random too.
	SameFinding func(found, replayed string) bool
}

var registry = map[string]*Check{}

func register(c *Check) { registry[c.ID] = c }

func Get(id string) (*Check, error) {
	c, ok := registry[id]
	if !ok {
		return nil, fmt.Errorf("unknown property %q", id)
	}
	return c, nil
}

func IDs() []string {
	var ids []string
	for id := range registry {
		ids = append(ids, id)
	}
	sort.Strings(ids)
	return ids
}

func viol(clause, format string, args ...any) *engine.Violation {
	return &engine.Violation{Clause: clause, Msg: fmt.Sprintf(format, args...), Tags: map[string]string{}}
}

func tagged(v *engine.Violation, kv ...string) *engine.Violation {
	for i := 0; i+1 < len(kv); i += 2 {
		v.Tags[kv[i]] = kv[i+1]
	}
	return v
}

func opts(rc *engine.RunCtx, depth int) engine.Options {
	return engine.Options{MaxDepth: depth, Workers: rc.Workers, Deadline: rc.Deadline(), Known: rc.Known.Matcher(rc.Property)}
}

func pick(rc *engine.RunCtx, quick, thorough int) int {
	if rc.Thorough() {
		return thorough
	}
	return quick
}
