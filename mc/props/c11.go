package props

import (
	"bytes"
	"crypto/sha256"
	"encoding/binary"
	"encoding/hex"
	"fmt"
	"math"
	"time"

	storetypes "cosmossdk.io/store/types"
	sdk "github.com/cosmos/cosmos-sdk/types"
	"github.com/cosmos/cosmos-sdk/types/query"

	ophosttypes "github.com/initia-labs/OPinit/x/ophost/types"

	"verifmc/engine"
	"verifmc/world"
)

// C11 — output oracle is a contiguous, strictly increasing log; deletion is suffix-only.

const c11Period = 10 * time.Second

type c11Out struct {
	L2   uint64
	H    int64
	T    time.Time
	Root []byte
}

type c11Log struct {
	Outs []c11Out // index i+1
}

func (l c11Log) next() uint64 { return uint64(len(l.Outs)) + 1 }

type c11State struct {
	ctx sdk.Context
	w   *world.L1
	m   [2]c11Log
}

type c11Sys struct{}

type c11Propose struct {
	b        uint64
	idx, blk uint64
	by       string
}
type c11Delete struct {
	b, idx uint64
	by     string
}
type c11Advance struct{ d time.Duration }
type c11Restart struct{}

func c11Root(b, blk uint64) []byte {
	var buf [16]byte
	binary.BigEndian.PutUint64(buf[:8], b)
	binary.BigEndian.PutUint64(buf[8:], blk)
	h := sha256.Sum256(buf[:])
	return h[:]
}

func newL1TwoBridges(period time.Duration) *world.L1 {
	w := world.NewL1(world.L1Options{Accounts: map[string]sdk.Coins{
		"proposer": nil, "challenger": nil, "stranger": nil, "creator": nil, "submitter": nil,
		"proposer2": nil, "challenger2": nil,
		"alice": sdk.NewCoins(world.Coin("uxx", 100), world.Coin("uyy", 100)),
		"bob":   nil,
	}})
	for i := 0; i < 2; i++ {
		res := w.Deliver(w.Ctx, ophosttypes.NewMsgCreateBridge(world.Addr("creator").String(), world.BridgeConfig("proposer", "challenger", period)))
		if !res.OK() {
			panic(fmt.Sprintf("setup: create bridge: %v", res.Err))
		}
	}
	return w
}

func (c11Sys) Root() *c11State {
	w := newL1TwoBridges(c11Period)
	if err := w.HK.SetBridgeConfig(w.Ctx, 1, world.BridgeConfig("proposer", "challenger", c11PeriodOf(1))); err != nil {
		panic(err)
	}
	return &c11State{ctx: w.Ctx, w: w}
}

// the model is part of the state key: a change that turns an operation into a no-op on the stores must
// not make the successor look like an already visited state (its model differs, and Check has to see it)
func (c11Sys) Digest(s *c11State) [32]byte { return s.w.Digest(s.ctx, []byte(fmt.Sprint(s.m))) }

func (c11Sys) Letters(s *c11State) []engine.Letter {
	var ls []engine.Letter
	for b := uint64(1); b <= 2; b++ {
		lg := s.m[b-1]
		next := lg.next()
		last := uint64(10)
		if len(lg.Outs) > 0 {
			last = lg.Outs[len(lg.Outs)-1].L2
		}
		add := func(idx, blk uint64, by string) {
			ls = append(ls, engine.Letter{Name: fmt.Sprintf("Propose(b%d,idx=%d,l2=%d,by=%s)", b, idx, blk, by), Data: c11Propose{b, idx, blk, by}})
		}
		add(next, last+1, "proposer") // (wraps to 0 once the last output sits at 2^64-1: must then be refused)
		add(next, last+3, "proposer")
		if b == 1 && last != math.MaxUint64 {
			add(next, math.MaxUint64, "proposer") // the largest L2 block number: nothing can follow it
		}
		add(next, last, "proposer")
		if last > 0 {
			add(next, last-1, "proposer")
		}
		if next > 1 {
			add(next-1, last+1, "proposer")
		}
		add(next+1, last+1, "proposer")
		add(next, last+1, "stranger")
		for i := uint64(0); i <= next; i++ {
			ls = append(ls, engine.Letter{Name: fmt.Sprintf("Delete(b%d,idx=%d,by=challenger)", b, i), Data: c11Delete{b, i, "challenger"}})
		}
		if next > 1 {
			ls = append(ls, engine.Letter{Name: fmt.Sprintf("Delete(b%d,idx=%d,by=stranger)", b, next-1), Data: c11Delete{b, next - 1, "stranger"}})
		}
	}
	// the long advance is 200 ms short of the period: block times get different sub-second parts (the world
	// starts at .3 s), so "the second in which the window ends" and "the instant it ends" come apart
	for _, d := range []time.Duration{0, 4 * time.Second, c11Period - 200*time.Millisecond} {
		ls = append(ls, engine.Letter{Name: fmt.Sprintf("Advance(%s)", d), Data: c11Advance{d}})
	}
	ls = append(ls, engine.Letter{Name: "RestartViaGenesis", Data: c11Restart{}})
	return ls
}

// c11OneEvent: an accepted operation announces itself in exactly one event of its type whose
// attributes are exactly the requested values (off-chain challengers and executors act on them).
func c11OneEvent(evs sdk.Events, typ string, want map[string]string) *engine.Violation {
	es := world.EventsOfType(evs, typ)
	if len(es) != 1 {
		return viol("accepted-operation-is-announced-faithfully", "%d %s events", len(es), typ)
	}
	if len(es[0].Attributes) != len(want) {
		return viol("accepted-operation-is-announced-faithfully", "%s event carries %d attributes, expected %d", typ, len(es[0].Attributes), len(want))
	}
	for k, w := range want {
		if got, ok := world.Attr(es[0], k); !ok || got != w {
			return viol("accepted-operation-is-announced-faithfully", "%s event: %s=%q, requested %q", typ, k, got, w)
		}
	}
	return nil
}

// bridge 1 has the longest period there is (its outputs never become final; time.Add saturates). It is the
// lower id on purpose: a walk that leaves bridge 2's key range downwards meets outputs that are old enough
// by bridge 2's measure and not final by their own
func c11PeriodOf(b uint64) time.Duration {
	if b == 1 {
		return time.Duration(math.MaxInt64)
	}
	return c11Period
}

// finality is decided in whole seconds (the property says so, C05 decides the boundary itself): an output
// is final from the second in which its window ends, also when the block's sub-second part is smaller
func (m c11Out) final(now time.Time, b uint64) bool {
	return now.Unix() >= m.T.Add(c11PeriodOf(b)).Unix()
}

func (c11Sys) Step(s *c11State, l engine.Letter) (*c11State, string, *engine.Violation) {
	ctx, _ := s.ctx.CacheContext()
	c := &c11State{ctx: ctx, w: s.w, m: s.m}
	before := s.w.Digest(s.ctx)
	switch d := l.Data.(type) {
	case c11Advance:
		c.ctx = world.Advance(ctx, d.d)
		return c, "ok", nil
	case c11Restart:
		if err := s.w.RestartViaGenesis(ctx); err != nil {
			return c, "error", viol("output-log-survives-a-restart", "export / validate / import of the module genesis failed: %v", err)
		}
		return c, "ok", nil
	case c11Propose:
		lg := s.m[d.b-1]
		root := c11Root(d.b, d.blk)
		res := s.w.Deliver(ctx, ophosttypes.NewMsgProposeOutput(world.Addr(d.by).String(), d.b, d.idx, d.blk, root))
		allowed := d.by == "proposer" && d.idx == lg.next() && (lg.next() == 1 || d.blk > lg.Outs[len(lg.Outs)-1].L2)
		if res.OK() {
			if !allowed {
				return c, "accepted", viol("propose-accepted-only-at-next-index-with-higher-block",
					"proposal accepted although signer=%s idx=%d (next=%d) l2block=%d (log=%v)", d.by, d.idx, lg.next(), d.blk, lg.Outs)
			}
			if v := c11OneEvent(res.Events, "propose_output", map[string]string{"proposer": world.Addr(d.by).String(), "bridge_id": fmt.Sprint(d.b), "output_index": fmt.Sprint(d.idx), "l2_block_number": fmt.Sprint(d.blk), "output_root": hex.EncodeToString(root)}); v != nil {
				return c, "accepted", v
			}
			outs := append(append([]c11Out{}, lg.Outs...), c11Out{L2: d.blk, H: ctx.BlockHeight(), T: ctx.BlockTime(), Root: root})
			c.m[d.b-1] = c11Log{outs}
			return c, "accepted", nil
		}
		if res.Panicked {
			return c, "panic", viol("handler-panic", "ProposeOutput panicked: %s", res.PanicVal)
		}
		if s.w.Digest(ctx) != before {
			return c, "rejected", viol("rejected-message-has-no-effect", "rejected proposal changed state: %v", res.Err)
		}
		if allowed {
			return c, "rejected-though-allowed", nil
		}
		return c, "rejected", nil
	case c11Delete:
		lg := s.m[d.b-1]
		res := s.w.Deliver(ctx, ophosttypes.NewMsgDeleteOutput(world.Addr(d.by).String(), d.b, d.idx))
		authorised := d.by == "challenger" || d.by == "proposer"
		inRange := d.idx >= 1 && d.idx < lg.next()
		anyFinal := false
		if inRange {
			for i := d.idx; i < lg.next(); i++ {
				if lg.Outs[i-1].final(ctx.BlockTime(), d.b) {
					anyFinal = true
				}
			}
		}
		allowed := authorised && inRange && !anyFinal
		if res.OK() {
			if !allowed {
				return c, "accepted", viol("delete-accepted-only-for-nonfinal-suffix",
					"delete accepted although by=%s idx=%d next=%d anyFinal=%v", d.by, d.idx, lg.next(), anyFinal)
			}
			if v := c11OneEvent(res.Events, "delete_output", map[string]string{"challenger": world.Addr(d.by).String(), "bridge_id": fmt.Sprint(d.b), "output_index": fmt.Sprint(d.idx)}); v != nil {
				return c, "accepted", v
			}
			n := lg.next() - d.idx
			c.m[d.b-1] = c11Log{append([]c11Out{}, lg.Outs[:d.idx-1]...)}
			if n >= 2 {
				return c, "accepted-suffix>=2", nil
			}
			return c, "accepted-suffix=1", nil
		}
		if res.Panicked {
			return c, "panic", viol("handler-panic", "DeleteOutput panicked: %s", res.PanicVal)
		}
		if s.w.Digest(ctx) != before {
			return c, "rejected", viol("rejected-message-has-no-effect", "rejected delete changed state: %v", res.Err)
		}
		if allowed {
			return c, "rejected-though-allowed", nil
		}
		if authorised && inRange && anyFinal {
			// partly final log: some output in the range is final while the first one may not be
			if !lg.Outs[d.idx-1].final(ctx.BlockTime(), d.b) {
				return c, "rejected-final-in-middle", nil
			}
			return c, "rejected-final", nil
		}
		return c, "rejected", nil
	}
	panic("unknown letter")
}

func (c11Sys) Check(s *c11State) *engine.Violation {
	now := s.ctx.BlockTime()
	for b := uint64(1); b <= 2; b++ {
		lg := s.m[b-1]
		next, err := s.w.HK.GetNextOutputIndex(s.ctx, b)
		if err != nil {
			return viol("log-occupies-1..next-1", "GetNextOutputIndex(b%d): %v", b, err)
		}
		if next != lg.next() {
			return viol("log-occupies-1..next-1", "bridge %d: next index %d, expected %d", b, next, lg.next())
		}
		resp, err := s.w.Q.OutputProposals(s.ctx, &ophosttypes.QueryOutputProposalsRequest{BridgeId: b})
		if err != nil {
			return viol("log-occupies-1..next-1", "OutputProposals query: %v", err)
		}
		if uint64(len(resp.OutputProposals)) != next-1 {
			return viol("log-occupies-1..next-1", "bridge %d: %d outputs stored, next index %d", b, len(resp.OutputProposals), next)
		}
		seenFinalGap := false
		for i, op := range resp.OutputProposals {
			want := lg.Outs[i]
			o := op.OutputProposal
			if op.OutputIndex != uint64(i+1) || op.BridgeId != b {
				return viol("log-occupies-1..next-1", "bridge %d: position %d holds index %d (bridge %d)", b, i+1, op.OutputIndex, op.BridgeId)
			}
			if o.L2BlockNumber != want.L2 || int64(o.L1BlockNumber) != want.H || !o.L1BlockTime.Equal(want.T) || !bytes.Equal(o.OutputRoot, want.Root) {
				return viol("proposal-records-height-time-root", "bridge %d idx %d: stored %+v, expected l2=%d h=%d t=%s", b, i+1, o, want.L2, want.H, want.T)
			}
			if i > 0 {
				p := resp.OutputProposals[i-1].OutputProposal
				if o.L2BlockNumber <= p.L2BlockNumber {
					return viol("l2-blocks-strictly-increase", "bridge %d: idx %d l2=%d after idx %d l2=%d", b, i+1, o.L2BlockNumber, i, p.L2BlockNumber)
				}
				if o.L1BlockTime.Before(p.L1BlockTime) {
					return viol("l1-times-non-decreasing", "bridge %d: idx %d time before idx %d", b, i+1, i)
				}
			}
			f := want.final(now, b)
			if f && seenFinalGap {
				return viol("final-outputs-form-a-prefix", "bridge %d: idx %d final after a non-final one", b, i+1)
			}
			if !f {
				seenFinalGap = true
			}
		}
		// LastFinalizedOutput = the highest final index of the reference log (0 / empty if none)
		wantLF := uint64(0)
		for i, o := range lg.Outs {
			if o.final(now, b) {
				wantLF = uint64(i + 1)
			}
		}
		lf, err := s.w.Q.LastFinalizedOutput(s.ctx, &ophosttypes.QueryLastFinalizedOutputRequest{BridgeId: b})
		if err != nil {
			return viol("last-finalized-query-is-the-final-prefix-end", "bridge %d: LastFinalizedOutput: %v", b, err)
		}
		if lf.OutputIndex != wantLF {
			return viol("last-finalized-query-is-the-final-prefix-end", "bridge %d: LastFinalizedOutput reports index %d, the reference log's last final output is %d", b, lf.OutputIndex, wantLF)
		}
		if wantLF > 0 && !bytes.Equal(lf.OutputProposal.OutputRoot, lg.Outs[wantLF-1].Root) {
			return viol("last-finalized-query-is-the-final-prefix-end", "bridge %d: LastFinalizedOutput(%d) carries another root", b, wantLF)
		}
		// paged walks (page size 1 and 2, forward and reverse) list exactly the same outputs
		for _, lim := range []uint64{1, 2} {
			for _, rev := range []bool{false, true} {
				var got []uint64
				var key []byte
				for guard := 0; guard < 64; guard++ {
					pr, err := s.w.Q.OutputProposals(s.ctx, &ophosttypes.QueryOutputProposalsRequest{BridgeId: b, Pagination: &query.PageRequest{Key: key, Limit: lim, Reverse: rev}})
					if err != nil {
						return viol("paged-output-listing-equals-the-log", "bridge %d: paged OutputProposals(limit=%d,reverse=%v): %v", b, lim, rev, err)
					}
					for _, op := range pr.OutputProposals {
						if op.BridgeId != b {
							return viol("paged-output-listing-equals-the-log", "bridge %d: paged listing returned an output of bridge %d", b, op.BridgeId)
						}
						got = append(got, op.OutputIndex)
					}
					if pr.Pagination == nil || len(pr.Pagination.NextKey) == 0 {
						break
					}
					key = pr.Pagination.NextKey
				}
				ok := uint64(len(got)) == next-1
				for i := 0; ok && i < len(got); i++ {
					w := uint64(i + 1)
					if rev {
						w = next - 1 - uint64(i)
					}
					ok = got[i] == w
				}
				if !ok {
					return viol("paged-output-listing-equals-the-log", "bridge %d: paged walk (limit=%d,reverse=%v) lists %v, the log holds 1..%d", b, lim, rev, got, next-1)
				}
			}
		}
		for i := uint64(0); i <= next+1; i++ {
			_, err := s.w.Q.OutputProposal(s.ctx, &ophosttypes.QueryOutputProposalRequest{BridgeId: b, OutputIndex: i})
			exists := err == nil
			if exists != (i >= 1 && i < next) {
				return viol("log-occupies-1..next-1", "bridge %d: OutputProposal(%d) exists=%v with next=%d", b, i, exists, next)
			}
		}
		// raw store: exactly next-1 keys under the output prefix of this bridge
		pre := append(append([]byte{}, ophosttypes.OutputProposalPrefix...), sdk.Uint64ToBigEndian(b)...)
		it := storetypes.KVStorePrefixIterator(s.ctx.KVStore(s.w.StoreKeys[2]), pre)
		n := uint64(0)
		for ; it.Valid(); it.Next() {
			n++
		}
		it.Close()
		if n != next-1 {
			return viol("log-occupies-1..next-1", "bridge %d: raw store holds %d outputs, next=%d", b, n, next)
		}
	}
	return nil
}

func init() {
	register(&Check{ID: "C11", Level: "model_checking",
		Run: func(rc *engine.RunCtx) *engine.Result {
			res := engine.NewResult()
			rep, err := engine.Explore[*c11State](c11Sys{}, opts(rc, pick(rc, 5, 7)))
			if err != nil {
				res.HarnessErr = err
				return res
			}
			res.Absorb("c11", rep)
			res.Coverage["alphabet"] = "Propose(b∈{1,2}; idx∈{next-1,next,next+1}; l2∈{last-1,last,last+1,last+3, 2^64-1 and what wraps around after it}; by∈{proposer,stranger}), Delete(b; idx∈0..next; by∈{challenger,stranger}), Advance∈{0,4s,9.8s = period-200ms (block times with different sub-second parts)}"
			res.Coverage["oracle"] = "per-bridge reference log compared with OutputProposals (full, and paged with page size 1 and 2 forward and reverse), OutputProposal and LastFinalizedOutput queries, next index and raw store in every state; acceptance implies the model's guard and exactly one propose_output / delete_output event whose attributes equal the request; rejection implies unchanged digest"
			res.Assumptions = []string{"one message per transaction with runTx semantics (discarded on error)", "two bridges, period 10s, histories up to the completed depth"}
			for _, k := range []string{"Propose/accepted", "Propose/rejected", "Delete/accepted-suffix=1", "Delete/accepted-suffix>=2", "Delete/rejected-final"} {
				res.Require(res.OutcomeCount("c11", k) > 0, "outcome %s never occurred", k)
			}
			res.Require(res.OutcomeCount("c11", "Propose/rejected-though-allowed") == 0 && res.OutcomeCount("c11", "Delete/rejected-though-allowed") == 0,
				"a well-formed authorised request was rejected (not a C11 violation, but the run is not meaningful)")
			return res
		},
		Replay: func(kind string, path []string) ([]string, *engine.Violation, error) {
			return engine.Replay[*c11State](c11Sys{}, path)
		},
	})
}
