package props

import (
	"errors"
	"fmt"
	"math/big"
	"sort"
	"strings"
	"sync/atomic"

	"cosmossdk.io/math"
	sdk "github.com/cosmos/cosmos-sdk/types"
	sdkerrors "github.com/cosmos/cosmos-sdk/types/errors"
	"github.com/cosmos/cosmos-sdk/x/authz"
	banktypes "github.com/cosmos/cosmos-sdk/x/bank/types"

	opchildante "github.com/initia-labs/OPinit/x/opchild/ante"
	opchildlanes "github.com/initia-labs/OPinit/x/opchild/lanes"
	opchildtypes "github.com/initia-labs/OPinit/x/opchild/types"

	"verifmc/engine"
	"verifmc/world"
)

// C20 — L2 mempool admission: fee floor, lane matching and redundant-relay filtering.

var c20Denoms = []string{"uaa", "ubb"}

// price menu entries as decimal strings ("" = absent)
var c20Prices = []string{"", "0.000000000000000001", "0.15", "0.333333333333333333", "1", "2.5"}
var c20NodePrices = []string{"", "0", "0.000000000000000001", "0.15", "0.333333333333333333", "1", "2.5"}
var c20Gas = []uint64{0, 1, 2, 3, 7, 1000000, 1 << 63}

func ratOf(s string) *big.Rat {
	if s == "" {
		return new(big.Rat)
	}
	r, ok := new(big.Rat).SetString(s)
	if !ok {
		panic(s)
	}
	return r
}

func ceilRat(r *big.Rat) *big.Int {
	q, m := new(big.Int).QuoRem(r.Num(), r.Denom(), new(big.Int))
	if m.Sign() > 0 {
		q.Add(q, big.NewInt(1))
	}
	return q
}

func decCoins(prices [2]string) sdk.DecCoins {
	var out sdk.DecCoins
	for i, p := range prices {
		if p == "" {
			continue
		}
		out = append(out, sdk.DecCoin{Denom: c20Denoms[i], Amount: math.LegacyMustNewDecFromStr(p)})
	}
	return out
}

type c20Tx struct {
	sdk.Tx
}

func c20BuildTx(w *world.L2, msgs []sdk.Msg, fee sdk.Coins, gas uint64, payer, granter sdk.AccAddress) sdk.Tx {
	b := w.Enc.TxConfig.NewTxBuilder()
	if err := b.SetMsgs(msgs...); err != nil {
		panic(err)
	}
	b.SetFeeAmount(fee)
	b.SetGasLimit(gas)
	if payer != nil {
		b.SetFeePayer(payer)
	}
	if granter != nil {
		b.SetFeeGranter(granter)
	}
	return b.GetTx()
}

// ---- part 1: fee floor ------------------------------------------------------------------------

func c20Fee(rc *engine.RunCtx, res *engine.Result, report func(*engine.Violation, string)) (evals, states int64) {
	w := world.NewL2(world.L2Options{Accounts: map[string]sdk.Coins{"payer": nil, "admin": nil, "executor": nil}})
	checker := opchildante.NewMempoolFeeChecker(w.K)
	msg := banktypes.NewMsgSend(world.Addr("payer"), world.Addr("admin"), sdk.NewCoins(sdk.NewInt64Coin("uaa", 1)))
	gasMenu := c20Gas
	chainMenu := c20Prices
	if !rc.Thorough() {
		chainMenu = []string{"", "0.000000000000000001", "0.333333333333333333", "2.5"}
	}
	accepted, rejected := 0, 0
	// point evaluates one (node price vector, chain price vector) on the given checker, in the context
	// whose stored parameters hold the chain vector, for every gas of gasMenu, fee set and mode
	point := func(chk opchildante.MempoolFeeChecker, cctx sdk.Context, node, chain [2]string, gasMenu []uint64, tag string) {
		nodeDC := decCoins(node)
		// CombinedMinGasPrices = pointwise max, sorted
		comb := opchildante.CombinedMinGasPrices(append(sdk.DecCoins{}, nodeDC...), decCoins(chain))
		evals++
		floor := [2]*big.Rat{}
		var wantComb []string
		for i := range c20Denoms {
			f := ratOf(node[i])
			if c := ratOf(chain[i]); c.Cmp(f) > 0 {
				f = c
			}
			floor[i] = f
			if f.Sign() > 0 {
				wantComb = append(wantComb, c20Denoms[i]+"="+f.FloatString(18))
			}
		}
		var gotComb []string
		for _, dc := range comb {
			if dc.Amount.IsPositive() {
				gotComb = append(gotComb, dc.Denom+"="+dc.Amount.String())
			}
		}
		if strings.Join(gotComb, ",") != strings.Join(wantComb, ",") || !sort.SliceIsSorted(comb, func(i, j int) bool { return comb[i].Denom < comb[j].Denom }) {
			report(viol("combined-floor-is-pointwise-max", "CombinedMinGasPrices(node=%v, chain=%v) = %v, expected %v", node, chain, gotComb, wantComb), fmt.Sprintf("combine(node=%v,chain=%v)", node, chain))
			return
		}
		allZero := floor[0].Sign() == 0 && floor[1].Sign() == 0
		for _, gas := range gasMenu {
			req := [2]*big.Int{}
			for i := range c20Denoms {
				req[i] = ceilRat(new(big.Rat).Mul(floor[i], new(big.Rat).SetInt(new(big.Int).SetUint64(gas))))
			}
			// fee menu: per denom {absent, req-1, req, req+1}; third denom {absent, 1}
			amts := func(i int) []*big.Int {
				out := []*big.Int{nil}
				for _, d := range []int64{-1, 0, 1} {
					v := new(big.Int).Add(req[i], big.NewInt(d))
					if v.Sign() > 0 {
						out = append(out, v)
					}
				}
				return out
			}
			for _, fa := range amts(0) {
				for _, fb := range amts(1) {
					for _, fc := range []int64{0, 1} {
						var fee sdk.Coins
						if fa != nil {
							fee = append(fee, sdk.NewCoin("uaa", math.NewIntFromBigInt(fa)))
						}
						if fb != nil {
							fee = append(fee, sdk.NewCoin("ubb", math.NewIntFromBigInt(fb)))
						}
						if fc > 0 {
							fee = append(fee, sdk.NewInt64Coin("ucc", fc))
						}
						tx := c20BuildTx(w, []sdk.Msg{msg}, fee, gas, nil, nil)
						for _, mode := range []string{"check", "recheck", "deliver"} {
							ctx := cctx.WithMinGasPrices(nodeDC)
							switch mode {
							case "check":
								ctx = ctx.WithIsCheckTx(true)
							case "recheck":
								ctx = ctx.WithIsReCheckTx(true)
							}
							_, _, err := chk.CheckTxFeeWithMinGasPrices(ctx, tx)
							evals++
							admitted := err == nil
							name := fmt.Sprintf("fee(node=%v,chain=%v,gas=%d,fee=%s,mode=%s%s)", node, chain, gas, fee, mode, tag)
							if err != nil && !errors.Is(err, sdkerrors.ErrInsufficientFee) {
								report(viol("fee-check-only-fails-with-insufficient-fee", "%s: %v", name, err), name)
								continue
							}
							if mode == "deliver" {
								if !admitted {
									report(viol("nothing-enforced-outside-checking", "%s rejected outside CheckTx", name), name)
								}
								continue
							}
							ok := false // ∃ denom with positive floor whose fee ≥ ceil(gas·floor)
							feeOf := []*big.Int{fa, fb}
							for i := range c20Denoms {
								if floor[i].Sign() > 0 && feeOf[i] != nil && feeOf[i].Cmp(req[i]) >= 0 {
									ok = true
								}
							}
							switch {
							case allZero:
								if !admitted {
									report(viol("any-fee-passes-when-all-floors-are-zero", "%s rejected", name), name)
								}
							case admitted && !ok:
								report(tagged(viol("admitted-only-above-the-floor", "%s admitted; required %s=%s %s=%s", name, c20Denoms[0], req[0], c20Denoms[1], req[1]), "dir", "soundness"), name)
							case !admitted && ok && gas >= 1:
								report(tagged(viol("fee-at-the-floor-in-one-denom-is-admitted", "%s rejected although one denom meets its floor (required %s=%s %s=%s)", name, c20Denoms[0], req[0], c20Denoms[1], req[1]), "dir", "definition"), name)
							}
							if admitted {
								accepted++
							} else {
								rejected++
							}
						}
					}
				}
			}
		}
	}
	for _, ca := range chainMenu {
		for _, cb := range chainMenu {
			chain := [2]string{ca, cb}
			cctx, _ := w.Ctx.CacheContext()
			p, _ := w.K.GetParams(cctx)
			p.MinGasPrices = decCoins(chain)
			if err := w.K.SetParams(cctx, p); err != nil {
				panic(err)
			}
			for _, na := range c20NodePrices {
				for _, nb := range c20NodePrices {
					node := [2]string{na, nb}
					states++
					point(checker, cctx, node, chain, gasMenu, "")
				}
			}
		}
	}
	// Histories. The checker is one object for the life of a node, and the chain's prices are a
	// parameter that governance changes while the node runs (the node's own prices are fixed at start).
	// For every node vector and every ordered pair A != B of chain vectors, a NEW checker serves
	// A, then B, then A again (quick); thorough adds every A, B, C, A. Every evaluation is held to the
	// same exact oracle, so an answer that depends on what the checker served before shows.
	hist := int64(0)
	setChain := func(ctx sdk.Context, chain [2]string) sdk.Context {
		c, _ := ctx.CacheContext()
		p, _ := w.K.GetParams(c)
		p.MinGasPrices = decCoins(chain)
		if err := w.K.SetParams(c, p); err != nil {
			panic(err)
		}
		return c
	}
	var chains [][2]string
	for _, ca := range chainMenu {
		for _, cb := range chainMenu {
			chains = append(chains, [2]string{ca, cb})
		}
	}
	histNode := []string{"", "0.15", "1"}
	if !rc.Thorough() {
		histNode = []string{"", "1"}
	}
	for _, na := range histNode {
		for _, nb := range histNode {
			node := [2]string{na, nb}
			var walk func(seq [][2]string)
			run := func(seq [][2]string) {
				hist++
				chk := opchildante.NewMempoolFeeChecker(w.K)
				ctx := w.Ctx
				var names []string
				for i, ch := range seq {
					names = append(names, fmt.Sprint(ch))
					ctx = setChain(ctx, ch)
					tag := ""
					if i > 0 {
						tag = ",after-chain-prices=" + strings.Join(names[:i], "→")
					}
					point(chk, ctx, node, ch, []uint64{7}, tag)
				}
			}
			maxLen := 3
			if rc.Thorough() {
				maxLen = 4
			}
			walk = func(seq [][2]string) {
				if len(seq) >= 2 {
					run(append(append([][2]string{}, seq...), seq[0])) // …and back to the first vector
				}
				if len(seq) == maxLen-1 {
					return
				}
				for _, ch := range chains {
					if len(seq) > 0 && ch == seq[len(seq)-1] {
						continue
					}
					walk(append(seq, ch))
				}
			}
			if rc.Thorough() && len(chains) > 16 {
				// 36 chain vectors: the three-step histories are taken over the quick tier's 16
				// (every two-step history over all 36 is still covered below)
				all := chains
				for _, a := range all {
					for _, b := range all {
						if a != b {
							run([][2]string{a, b, a})
						}
					}
				}
				chains = nil
				for _, ca := range []string{"", "0.000000000000000001", "0.333333333333333333", "2.5"} {
					for _, cb := range []string{"", "0.000000000000000001", "0.333333333333333333", "2.5"} {
						chains = append(chains, [2]string{ca, cb})
					}
				}
				walk(nil)
				chains = all
			} else {
				walk(nil)
			}
		}
	}
	res.Coverage["fee_matrix"] = map[string]any{"price_vector_pairs": states, "admitted": accepted, "rejected": rejected, "chain_price_histories_on_a_new_checker_each": hist}
	res.Require(accepted > 1000 && rejected > 1000, "fee matrix is one-sided: %d admitted, %d rejected", accepted, rejected)
	return
}

// ---- part 2: lanes ----------------------------------------------------------------------------

func c20Lanes(res *engine.Result, report func(*engine.Violation, string)) (evals int64) {
	w := world.NewL2(world.L2Options{Accounts: map[string]sdk.Coins{"p": nil, "q": nil, "g": nil, "x": nil, "admin": nil, "executor": nil}})
	oracle := func() sdk.Msg { return opchildtypes.NewMsgUpdateOracle(world.Addr("executor").String(), 5, []byte{1}) }
	other := func() sdk.Msg {
		return banktypes.NewMsgSend(world.Addr("p"), world.Addr("q"), sdk.NewCoins(sdk.NewInt64Coin("uaa", 1)))
	}
	exec := func(msgs ...sdk.Msg) sdk.Msg { m := authz.NewMsgExec(world.Addr("p"), msgs); return &m }
	type shape struct {
		name   string
		msgs   []sdk.Msg
		system bool
	}
	shapes := []shape{
		{"[]", nil, false},
		{"[oracle]", []sdk.Msg{oracle()}, true},
		{"[oracle,oracle]", []sdk.Msg{oracle(), oracle()}, false},
		{"[oracle,other]", []sdk.Msg{oracle(), other()}, false},
		{"[other,oracle]", []sdk.Msg{other(), oracle()}, false},
		{"[exec[oracle]]", []sdk.Msg{exec(oracle())}, true},
		{"[exec[oracle,oracle]]", []sdk.Msg{exec(oracle(), oracle())}, false},
		{"[exec[oracle,other]]", []sdk.Msg{exec(oracle(), other())}, false},
		{"[exec[exec[oracle]]]", []sdk.Msg{exec(exec(oracle()))}, false},
		{"[exec[other]]", []sdk.Msg{exec(other())}, false},
		{"[exec[]]", []sdk.Msg{exec()}, false},
		{"[exec[oracle],oracle]", []sdk.Msg{exec(oracle()), oracle()}, false},
		{"[other]", []sdk.Msg{other()}, false},
	}
	sys := opchildlanes.SystemLaneMatchHandler()
	nsys := 0
	for _, sh := range shapes {
		tx := c20BuildTx(w, sh.msgs, nil, 100, nil, nil)
		got := sys(w.Ctx, tx)
		evals++
		if got {
			nsys++
		}
		if got != sh.system {
			report(tagged(viol("system-lane-is-exactly-one-oracle-update", "message list %s: system lane match = %v, expected %v", sh.name, got, sh.system), "shape", sh.name), "system-lane"+sh.name)
		}
	}
	// free lane: whitelist = every ordered list over {p,g,x}, payer ∈ {p,q}, granter ∈ {nil,g,q}
	free := opchildlanes.NewFreeLaneMatchHandler(w.AK.AddressCodec(), w.K).MatchHandler()
	names := []string{"p", "g", "x"}
	nfree := 0
	// every ordered list without repetition over the three names (the on-chain list is stored as given:
	// nothing sorts it), 16 lists in all
	var lists [][]string
	var perm func(cur []string, used int)
	perm = func(cur []string, used int) {
		lists = append(lists, append([]string{}, cur...))
		for i, n := range names {
			if used&(1<<i) == 0 {
				perm(append(cur, n), used|1<<i)
			}
		}
	}
	perm(nil, 0)
	for _, wln := range lists {
		var wl []string
		for _, n := range wln {
			wl = append(wl, world.Addr(n).String())
		}
		cctx, _ := w.Ctx.CacheContext()
		p, _ := w.K.GetParams(cctx)
		p.FeeWhitelist = wl
		if err := w.K.SetParams(cctx, p); err != nil {
			panic(err)
		}
		for _, payer := range []string{"p", "q"} {
			for _, granter := range []string{"", "g", "q"} {
				var ga sdk.AccAddress
				if granter != "" {
					ga = world.Addr(granter)
				}
				tx := c20BuildTx(w, []sdk.Msg{other()}, nil, 100, world.Addr(payer), ga)
				got := free(cctx, tx)
				evals++
				want := false
				for _, n := range wln {
					if n == payer || n == granter {
						want = true
					}
				}
				if got {
					nfree++
				}
				if got != want {
					name := fmt.Sprintf("free-lane(whitelist=%v,payer=%s,granter=%q)", wln, payer, granter)
					report(viol("fee-exempt-iff-payer-or-granter-whitelisted", "%s = %v, expected %v", name, got, want), name)
				}
			}
		}
	}
	res.Coverage["lanes"] = map[string]any{"system_shapes": len(shapes), "system_matches": nsys, "free_cases": 96, "free_matches": nfree}
	return
}

// ---- part 3: redundant relay filtering, probed in every state of C06's system ----------------

type c20RedSys struct {
	c06Sys
	probes  atomic.Int64
	redund  atomic.Int64
	passed  atomic.Int64
	errored atomic.Int64
}

type c20Dep struct {
	kind string // stale | next | nextnext | gap | stranger
}

func (y *c20RedSys) Check(s *c06State) *engine.Violation {
	if v := y.c06Sys.Check(s); v != nil {
		return v
	}
	dec := opchildante.NewRedundantBridgeDecorator(s.w.K)
	kinds := []string{"next", "nextnext", "gap", "stranger"}
	if s.next > 1 {
		kinds = append([]string{"stale"}, kinds...)
	}
	exec := "e2" // e2 is an executor in every state of the search
	var lists [][]string
	var gen func(prefix []string, n int)
	gen = func(prefix []string, n int) {
		if len(prefix) == n {
			lists = append(lists, append([]string{}, prefix...))
			return
		}
		for _, k := range kinds {
			gen(append(prefix, k), n)
		}
	}
	for n := 0; n <= 3; n++ { // n = 0: no deposit message at all (only together with the other message)
		gen(nil, n)
	}
	mk := func(kind string) sdk.Msg {
		seq := s.next
		by := exec
		switch kind {
		case "stale":
			seq = s.next - 1
		case "nextnext":
			seq = s.next + 1
		case "gap":
			seq = s.next + 3
		case "stranger":
			by = "stranger"
		}
		m, _, _ := c06Msg(1, by, 0)
		m.Sequence = seq
		return m
	}
	other := banktypes.NewMsgSend(world.Addr("alice"), world.Addr("bob"), sdk.NewCoins(sdk.NewInt64Coin(c06Denom, 1)))
	for _, l := range lists {
		for _, withOther := range []bool{false, true} {
			if len(l) == 0 && !withOther {
				continue
			}
			var msgs []sdk.Msg
			for _, k := range l {
				msgs = append(msgs, mk(k))
			}
			if withOther {
				msgs = append(msgs, other)
			}
			tx := c20BuildTx(s.w, msgs, nil, 100, nil, nil)
			// model of the decorator's verdict
			n := s.next
			red, pk, fresh := 0, 0, 0
			errExpected := false
			for _, k := range l {
				seq := map[string]uint64{"stale": s.next - 1, "next": s.next, "nextnext": s.next + 1, "gap": s.next + 3, "stranger": s.next}[k]
				if k == "stranger" {
					errExpected = true
					break
				}
				if seq < n {
					red++
				} else if seq == n {
					n++
					fresh++
				} else {
					errExpected = true
					break
				}
				pk++
			}
			for _, mode := range []string{"check", "recheck", "deliver", "simulate"} {
				ctx, _ := s.ctx.CacheContext()
				sim := false
				switch mode {
				case "check":
					ctx = ctx.WithIsCheckTx(true)
				case "recheck":
					ctx = ctx.WithIsReCheckTx(true)
				case "simulate":
					ctx = ctx.WithIsCheckTx(true)
					sim = true
				}
				before := s.w.Digest(ctx)
				called := false
				_, err := dec.AnteHandle(ctx, tx, sim, func(c sdk.Context, t sdk.Tx, s bool) (sdk.Context, error) { called = true; return c, nil })
				y.probes.Add(1)
				name := fmt.Sprintf("redundant(next=%d,msgs=%v,other=%v,mode=%s)", s.next, l, withOther, mode)
				checking := (mode == "check" || mode == "recheck")
				if !checking {
					if err != nil || !called || s.w.Digest(ctx) != before {
						return tagged(viol("decorator-is-transparent-outside-checking", "%s: err=%v next-called=%v", name, err, called), "probe", name)
					}
					continue
				}
				if errExpected {
					y.errored.Add(1)
					continue // gap / stranger: the property is silent
				}
				allStale := pk > 0 && red == pk
				if allStale {
					if !errors.Is(err, opchildtypes.ErrRedundantTx) {
						return tagged(viol("all-stale-deposit-tx-is-rejected-at-check", "%s: expected ErrRedundantTx, got err=%v", name, err), "probe", name)
					}
					y.redund.Add(1)
				} else if pk == 0 {
					// nothing in it is a deposit finalization: the redundancy filter has no business with it
					if errors.Is(err, opchildtypes.ErrRedundantTx) || !called {
						return tagged(viol("redundancy-rejection-needs-a-stale-deposit", "%s: a transaction without any deposit finalization was rejected as redundant (err=%v)", name, err), "probe", name)
					}
				} else if fresh > 0 {
					if err != nil || !called {
						return tagged(viol("tx-with-a-fresh-deposit-passes", "%s: err=%v next-called=%v", name, err, called), "probe", name)
					}
					y.passed.Add(1)
				}
			}
		}
	}
	return nil
}

func c20Run(rc *engine.RunCtx) *engine.Result {
	res := engine.NewResult()
	known := rc.Known.Matcher(rc.Property)
	report := func(v *engine.Violation, name string) {
		v.Path = []string{name, "tier=" + rc.Tier} // the matrix is walked in the tier's order
		v.Tags["search"] = "matrix"
		if id, ok := known(v); ok {
			res.KnownHits[id]++
			if _, have := res.KnownWit[id]; !have {
				res.KnownWit[id] = v
			}
			return
		}
		if len(res.Violations) < 50 {
			res.Violations = append(res.Violations, v)
		}
	}
	e1, st := c20Fee(rc, res, report)
	e2 := c20Lanes(res, report)
	y := &c20RedSys{}
	rep, err := engine.Explore[*c06State](y, opts(rc, pick(rc, 4, 5)))
	if err != nil {
		res.HarnessErr = err
		return res
	}
	res.Absorb("redundant", rep)
	res.Coverage["redundant_probes"] = map[string]any{"probes": y.probes.Load(), "rejected_as_redundant": y.redund.Load(), "passed_with_fresh": y.passed.Load(), "other_error_expected": y.errored.Load()}
	res.Require(y.redund.Load() > 0 && y.passed.Load() > 0, "redundant-relay probes are one-sided")
	total := e1 + e2 + y.probes.Load()
	res.Coverage["evaluations"] = total
	res.Coverage["distinct_nontrivial"] = st + int64(rep.States)
	res.Coverage["rule"] = "fee matrix: every (node price vector, chain price vector, gas, fee coin set, mode) of the menus evaluated on the real MempoolFeeChecker against an exact big.Rat oracle; lanes: every message-list shape / whitelist × payer × granter case; redundant relay: every deposit-message list of length ≤3 over {stale,next,next+1,gap,stranger} (± a non-deposit message) × 4 modes in every state of C06's system"
	// fold matrix evaluations into the model-checking keys too
	if v, ok := res.Coverage["transitions"].(int64); ok {
		res.Coverage["transitions"] = v + total
		res.Coverage["traces_validated_against_impl"] = v + total
	}
	res.AddSample(map[string]any{"fee_case": "node=[0.333333333333333333 ''] chain=['' 2.5] gas=7 fee=3uaa mode=check → floor uaa=⌈7/3⌉... admitted iff fee ≥ ceil"})
	res.AddSample(map[string]any{"lane_case": "[exec[exec[oracle]]] is not a system tx; [exec[oracle]] is"})
	res.Coverage["oracle"] = "fee: admitted ⇔ all floors zero ∨ ∃ denom with positive floor: fee ≥ ⌈gas·max(node,chain)⌉ (for gas=0 only ⇒), nothing enforced outside CheckTx/ReCheckTx, CombinedMinGasPrices = sorted pointwise max; lanes: system ⇔ exactly one MsgUpdateOracle, possibly inside one single-message MsgExec; fee-exempt ⇔ payer or granter whitelisted; redundant: all-stale ⇒ ErrRedundantTx at check time, a list with a fresh next sequence passes, transparent outside checking / in simulation"
	res.Assumptions = []string{"price and fee menus as listed; chain price menu reduced to 4 entries per denom in the quick tier"}
	return res
}

func init() {
	register(&Check{ID: "C20", Level: "model_checking",
		Run: c20Run,
		Replay: func(kind string, path []string) ([]string, *engine.Violation, error) {
			if kind == "redundant" {
				return engine.Replay[*c06State](&c20RedSys{}, path)
			}
			rc := &engine.RunCtx{Property: "C20", Tier: "thorough", Known: &engine.KnownFile{}}
			if len(path) == 2 && path[1] == "tier=quick" {
				rc.Tier = "quick"
			}
			res := engine.NewResult()
			var found *engine.Violation
			report := func(v *engine.Violation, name string) {
				if found == nil && len(path) >= 1 && name == path[0] {
					v.Path = append([]string{}, path...)
					found = v
				}
			}
			c20Fee(rc, res, report)
			c20Lanes(res, report)
			return []string{"ran"}, found, nil
		},
	})
}
