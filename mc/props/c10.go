package props

import (
	"bytes"
	"encoding/hex"
	"fmt"
	"strconv"
	"strings"
	"time"

	sdk "github.com/cosmos/cosmos-sdk/types"
	"github.com/cosmos/cosmos-sdk/types/query"
	banktypes "github.com/cosmos/cosmos-sdk/x/bank/types"

	ophosttypes "github.com/initia-labs/OPinit/x/ophost/types"

	"verifmc/engine"
	"verifmc/ref"
	"verifmc/world"
)

// C10 — L1 deposits: gap-free per-bridge sequences, real bridges only, faithful events.

type c10Bridge struct {
	Exists bool
	Next   uint64            // next L1 sequence (model: starts at 1)
	Pairs  map[string]string // l2denom -> l1denom
}

type c10State struct {
	ctx sdk.Context
	w   *world.L1
	b   [3]c10Bridge // ids 1..3
}

type c10Sys struct{}

type c10Create struct{}
type c10Restart struct{}
type c10Send struct {
	b     uint64
	denom string
}
type c10Deposit struct {
	b      uint64
	denom  string
	amt    int64
	to     string
	data   []byte
	sender string
}

func (c10Sys) Root() *c10State {
	w := world.NewL1(world.L1Options{Accounts: map[string]sdk.Coins{
		"proposer": nil, "challenger": nil, "stranger": nil, "creator": nil, "submitter": nil,
		"alice": sdk.NewCoins(world.Coin("uxx", 100), world.Coin("uyy", 100), world.Coin(c10LongDenomA, 100), world.Coin(c10LongDenomB, 100)),
	}})
	res := w.Deliver(w.Ctx, ophosttypes.NewMsgCreateBridge(world.Addr("creator").String(), world.BridgeConfig("proposer", "challenger", 10*time.Second)))
	if !res.OK() {
		panic(res.Err)
	}
	s := &c10State{ctx: w.Ctx, w: w}
	for i := range s.b {
		s.b[i] = c10Bridge{Next: 1, Pairs: map[string]string{}}
	}
	s.b[0].Exists = true
	// bridge 1 is not new: it has taken eight deposits already, so the histories cross the point where its
	// sequence needs a second digit (bridges 2 and 3 start at 1)
	for i := 0; i < 8; i++ {
		if res := w.Deliver(w.Ctx, ophosttypes.NewMsgInitiateTokenDeposit(world.Addr("alice").String(), 1, "l2addr", world.Coin("uxx", 0), nil)); !res.OK() {
			panic(res.Err)
		}
	}
	s.b[0].Next = 9
	s.b[0].Pairs[ref.L2Denom(1, "uxx")] = "uxx"
	return s
}

// the model is part of the state key: a change that turns an operation into a no-op on the stores must
// not make the successor look like an already visited state (its model differs, and Check has to see it)
func (c10Sys) Digest(s *c10State) [32]byte { return s.w.Digest(s.ctx, []byte(fmt.Sprint(s.b))) }

// the long recipient begins and ends in white space: what L1 announces is the string as requested, byte for byte
const c10LongTo = " \tinit1qqqqqqqqqqqqqqqqqqqqqqqqqqqqqqqqqqqqqqqqqqqqqqqqqqqqqqqqqqqqqqqqqqqqqqqqqqqqqq/with spaces and ünïcode \n\t"

// two legal long denoms (an ibc-style hash path) that agree in their first 80 characters
// (and, being of the maximal legal length of 128, in their first 127)
var c10LongDenomA = c10LongDenomPrefix + "c"
var c10LongDenomB = c10LongDenomPrefix + "t"
var c10LongDenomPrefix = ("ibc/27394FB092D2ECCD56123C74F36E4C1F926001CEADA9CA97EA622B25F41E5EB2/" + strings.Repeat("transfer/channel-141/wrapped-usd/", 3))[:127]

func (c10Sys) Letters(s *c10State) []engine.Letter {
	var ls []engine.Letter
	ls = append(ls, engine.Letter{Name: "Deposit(b1,1 long-denom-A,to=short)", Data: c10Deposit{1, c10LongDenomA, 1, "l2addr", nil, "alice"}})
	ls = append(ls, engine.Letter{Name: "Deposit(b1,1 long-denom-B,to=short)", Data: c10Deposit{1, c10LongDenomB, 1, "l2addr", nil, "alice"}})
	if !s.b[2].Exists {
		ls = append(ls, engine.Letter{Name: "CreateBridge", Data: c10Create{}})
	}
	for b := uint64(1); b <= 3; b++ {
		for _, den := range []string{"uxx", "uyy"} {
			for _, amt := range []int64{0, 1} {
				ls = append(ls, engine.Letter{Name: fmt.Sprintf("Deposit(b%d,%d%s,to=short)", b, amt, den), Data: c10Deposit{b, den, amt, "l2addr", nil, "alice"}})
				ls = append(ls, engine.Letter{Name: fmt.Sprintf("Deposit(b%d,%d%s,to=long,data)", b, amt, den), Data: c10Deposit{b, den, amt, c10LongTo, []byte{0, 1, 0xfe, 0xff}, "alice"}})
			}
		}
		ls = append(ls, engine.Letter{Name: fmt.Sprintf("Deposit(b%d,1uxx,by=unfunded)", b), Data: c10Deposit{b, "uxx", 1, "l2addr", nil, "stranger"}})
	}
	ls = append(ls, engine.Letter{Name: "RestartViaGenesis", Data: c10Restart{}})
	// plain bank transfers to escrow addresses: a bridge that already holds a denom nobody has deposited
	// yet, and coins waiting at the address of a bridge that does not exist yet
	ls = append(ls, engine.Letter{Name: "BankSend(alice->escrow1,1uyy)", Data: c10Send{1, "uyy"}})
	ls = append(ls, engine.Letter{Name: "BankSend(alice->escrow2,1uxx)", Data: c10Send{2, "uxx"}})
	return ls
}

func (c10Sys) Step(s *c10State, l engine.Letter) (*c10State, string, *engine.Violation) {
	ctx, _ := s.ctx.CacheContext()
	c := &c10State{ctx: ctx, w: s.w, b: s.b}
	before := s.w.Digest(s.ctx)
	switch d := l.Data.(type) {
	case c10Send:
		res := s.w.Deliver(ctx, banktypes.NewMsgSend(world.Addr("alice"), ref.BridgeAddress(d.b), sdk.NewCoins(world.Coin(d.denom, 1))))
		if !res.OK() {
			return c, "rejected", nil
		}
		return c, "ok", nil
	case c10Restart:
		if err := s.w.RestartViaGenesis(ctx); err != nil {
			return c, "error", viol("sequences-and-pairs-survive-a-restart", "export / validate / import of the module genesis failed: %v", err)
		}
		return c, "ok", nil
	case c10Create:
		cfg := world.BridgeConfig("proposer", "challenger", 10*time.Second)
		if n, err := s.w.HK.GetNextBridgeId(ctx); err == nil && n == 3 {
			// the third bridge belongs to a rollup that starts submitting late and seldom (nothing of that
			// is about deposits)
			cfg.SubmissionStartHeight, cfg.SubmissionInterval = 5_000_000, 1000*time.Hour
		}
		res := s.w.Deliver(ctx, ophosttypes.NewMsgCreateBridge(world.Addr("creator").String(), cfg))
		if !res.OK() {
			return c, "rejected", viol("harness-expectation", "CreateBridge failed: %v", res.Err)
		}
		id := res.Resp.(*ophosttypes.MsgCreateBridgeResponse).BridgeId
		if id < 2 || id > 3 || s.b[id-1].Exists {
			return c, "accepted", viol("bridge-ids-are-fresh", "CreateBridge returned id %d", id)
		}
		nb := c.b[id-1]
		nb.Exists = true
		c.b[id-1] = nb
		// a new bridge starts with nothing pre-recorded under its id
		if v := c10FreshBridge(c, id); v != nil {
			return c, "accepted", v
		}
		return c, "accepted", nil
	case c10Deposit:
		mb := s.b[d.b-1]
		sender := world.Addr(d.sender)
		escrow := sdk.AccAddress(ref.BridgeAddress(d.b))
		sb, eb := balanceOf(s.w, ctx, sender, d.denom), balanceOf(s.w, ctx, escrow, d.denom)
		msg := ophosttypes.NewMsgInitiateTokenDeposit(sender.String(), d.b, d.to, world.Coin(d.denom, d.amt), d.data)
		res := s.w.Deliver(ctx, msg)
		if !res.OK() {
			if res.Panicked {
				return c, "panic", viol("handler-panic", "InitiateTokenDeposit panicked: %s", res.PanicVal)
			}
			if s.w.Digest(ctx) != before {
				return c, "rejected", viol("rejected-message-has-no-effect", "rejected deposit changed state: %v", res.Err)
			}
			if mb.Exists && sb >= d.amt {
				return c, "rejected-though-valid", nil
			}
			return c, "rejected", nil
		}
		if !mb.Exists {
			return c, "accepted", tagged(viol("deposits-only-for-existing-bridges", "deposit into bridge id %d accepted although no such bridge exists", d.b), "bridge", "nonexistent")
		}
		seq := res.Resp.(*ophosttypes.MsgInitiateTokenDepositResponse).Sequence
		if seq != mb.Next {
			return c, "accepted", viol("per-bridge-gap-free-sequence", "bridge %d: deposit got sequence %d, expected %d", d.b, seq, mb.Next)
		}
		evs := world.EventsOfType(res.Events, "initiate_token_deposit")
		if len(evs) != 1 {
			return c, "accepted", viol("exactly-one-faithful-event", "%d initiate_token_deposit events", len(evs))
		}
		l2 := ref.L2Denom(d.b, d.denom)
		want := map[string]string{
			"bridge_id": strconv.FormatUint(d.b, 10), "l1_sequence": strconv.FormatUint(mb.Next, 10), "from": sender.String(), "to": d.to,
			"l1_denom": d.denom, "l2_denom": l2, "amount": strconv.FormatInt(d.amt, 10), "data": hex.EncodeToString(d.data),
		}
		if len(evs[0].Attributes) != len(want) {
			return c, "accepted", viol("exactly-one-faithful-event", "event has %d attributes, expected %d: %v", len(evs[0].Attributes), len(want), evs[0].Attributes)
		}
		for k, wv := range want {
			if got, ok := world.Attr(evs[0], k); !ok || got != wv {
				return c, "accepted", viol("exactly-one-faithful-event", "event attribute %s=%q, requested %q", k, got, wv)
			}
		}
		if got := balanceOf(s.w, ctx, sender, d.denom); got != sb-d.amt {
			return c, "accepted", viol("deposit-moves-exactly-the-amount", "sender balance %d -> %d for amount %d", sb, got, d.amt)
		}
		if got := balanceOf(s.w, ctx, escrow, d.denom); got != eb+d.amt {
			return c, "accepted", viol("deposit-moves-exactly-the-amount", "escrow balance %d -> %d for amount %d", eb, got, d.amt)
		}
		nb := c10Bridge{Exists: true, Next: mb.Next + 1, Pairs: map[string]string{}}
		for k, v := range mb.Pairs {
			nb.Pairs[k] = v
		}
		if old, ok := nb.Pairs[l2]; ok && old != d.denom {
			return c, "accepted", viol("token-pair-never-changes", "pair %s was %s", l2, old)
		}
		nb.Pairs[l2] = d.denom
		c.b[d.b-1] = nb
		return c, "accepted", nil
	}
	panic("unknown letter")
}

func c10FreshBridge(s *c10State, id uint64) *engine.Violation {
	q := s.w.Q
	if r, err := q.NextL1Sequence(s.ctx, &ophosttypes.QueryNextL1SequenceRequest{BridgeId: id}); err != nil || r.NextL1Sequence != 1 {
		return tagged(viol("new-bridge-starts-clean", "new bridge %d has next L1 sequence %v (err=%v)", id, r, err), "bridge", "pre-recorded")
	}
	if r, err := q.TokenPairs(s.ctx, &ophosttypes.QueryTokenPairsRequest{BridgeId: id}); err != nil || len(r.TokenPairs) != 0 {
		return tagged(viol("new-bridge-starts-clean", "new bridge %d has token pairs %v (err=%v)", id, r, err), "bridge", "pre-recorded")
	}
	if r, err := q.OutputProposals(s.ctx, &ophosttypes.QueryOutputProposalsRequest{BridgeId: id}); err != nil || len(r.OutputProposals) != 0 {
		return viol("new-bridge-starts-clean", "new bridge %d has outputs (err=%v)", id, err)
	}
	if n, err := s.w.HK.GetNextOutputIndex(s.ctx, id); err != nil || n != 1 {
		return viol("new-bridge-starts-clean", "new bridge %d has next output index %d (err=%v)", id, n, err)
	}
	if r, err := q.BatchInfos(s.ctx, &ophosttypes.QueryBatchInfosRequest{BridgeId: id}); err != nil || len(r.BatchInfos) != 1 {
		return viol("new-bridge-starts-clean", "new bridge %d has %d batch infos (err=%v)", id, len(r.BatchInfos), err)
	}
	pre := append(append([]byte{}, ophosttypes.ProvenWithdrawalPrefix...), sdk.Uint64ToBigEndian(id)...)
	it := s.ctx.KVStore(s.w.StoreKeys[2]).Iterator(pre, append(append([]byte{}, ophosttypes.ProvenWithdrawalPrefix...), sdk.Uint64ToBigEndian(id+1)...))
	defer it.Close()
	if it.Valid() {
		return viol("new-bridge-starts-clean", "new bridge %d has claim records", id)
	}
	if !bytes.Equal(ophosttypes.BridgeAddress(id), ref.BridgeAddress(id)) {
		return viol("escrow-address-derivation", "bridge address of %d differs from the independent derivation", id)
	}
	return nil
}

func (c10Sys) Check(s *c10State) *engine.Violation {
	for id := uint64(1); id <= 3; id++ {
		mb := s.b[id-1]
		r, err := s.w.Q.NextL1Sequence(s.ctx, &ophosttypes.QueryNextL1SequenceRequest{BridgeId: id})
		if err != nil || r.NextL1Sequence != mb.Next {
			return viol("per-bridge-gap-free-sequence", "bridge %d: NextL1Sequence query %v, model %d (err=%v)", id, r, mb.Next, err)
		}
		tp, err := s.w.Q.TokenPairs(s.ctx, &ophosttypes.QueryTokenPairsRequest{BridgeId: id})
		if err != nil || len(tp.TokenPairs) != len(mb.Pairs) {
			return viol("token-pair-is-the-derivation", "bridge %d: %d pairs stored, model %d (err=%v)", id, len(tp.TokenPairs), len(mb.Pairs), err)
		}
		for _, p := range tp.TokenPairs {
			if mb.Pairs[p.L2Denom] != p.L1Denom || ref.L2Denom(id, p.L1Denom) != p.L2Denom {
				return viol("token-pair-is-the-derivation", "bridge %d: stored pair %s -> %s", id, p.L2Denom, p.L1Denom)
			}
		}
		// the by-denom queries agree with the model for every denom of the menu, recorded or not,
		// and a one-by-one paged walk lists the same pairs
		for _, den := range []string{"uxx", "uyy", "uzz", c10LongDenomA, c10LongDenomB} {
			l2 := ref.L2Denom(id, den)
			r1, err := s.w.Q.TokenPairByL1Denom(s.ctx, &ophosttypes.QueryTokenPairByL1DenomRequest{BridgeId: id, L1Denom: den})
			if err != nil || r1.TokenPair.L1Denom != den || r1.TokenPair.L2Denom != l2 {
				return viol("token-pair-is-the-derivation", "bridge %d: TokenPairByL1Denom(%s) = %v (err=%v), derivation gives %s", id, den, r1, err, l2)
			}
			r2, err := s.w.Q.TokenPairByL2Denom(s.ctx, &ophosttypes.QueryTokenPairByL2DenomRequest{BridgeId: id, L2Denom: l2})
			_, recorded := mb.Pairs[l2]
			if recorded != (err == nil) || (recorded && (r2.TokenPair.L1Denom != den || r2.TokenPair.L2Denom != l2)) {
				return viol("token-pair-is-the-derivation", "bridge %d: TokenPairByL2Denom(%s) = %v (err=%v), model recorded=%v l1=%s", id, l2, r2, err, recorded, den)
			}
		}
		var paged int
		var key []byte
		for guard := 0; guard < 16; guard++ {
			pr, err := s.w.Q.TokenPairs(s.ctx, &ophosttypes.QueryTokenPairsRequest{BridgeId: id, Pagination: &query.PageRequest{Key: key, Limit: 1}})
			if err != nil {
				return viol("token-pair-is-the-derivation", "bridge %d: paged TokenPairs: %v", id, err)
			}
			for _, p := range pr.TokenPairs {
				if mb.Pairs[p.L2Denom] != p.L1Denom {
					return viol("token-pair-is-the-derivation", "bridge %d: paged TokenPairs lists %s -> %s", id, p.L2Denom, p.L1Denom)
				}
				paged++
			}
			if pr.Pagination == nil || len(pr.Pagination.NextKey) == 0 {
				break
			}
			key = pr.Pagination.NextKey
		}
		if paged != len(mb.Pairs) {
			return viol("token-pair-is-the-derivation", "bridge %d: paged TokenPairs lists %d pairs, model %d", id, paged, len(mb.Pairs))
		}
		_, err = s.w.Q.Bridge(s.ctx, &ophosttypes.QueryBridgeRequest{BridgeId: id})
		if (err == nil) != mb.Exists {
			return viol("harness-model-out-of-sync", "bridge %d exists=%v in model, query err=%v", id, mb.Exists, err)
		}
	}
	return nil
}

func init() {
	register(&Check{ID: "C10", Level: "model_checking",
		Run: func(rc *engine.RunCtx) *engine.Result {
			res := engine.NewResult()
			rep, err := engine.Explore[*c10State](c10Sys{}, opts(rc, pick(rc, 6, 9)))
			if err != nil {
				res.HarnessErr = err
				return res
			}
			res.Absorb("c10", rep)
			res.Coverage["alphabet"] = "CreateBridge (ids 2,3 created mid-history); Deposit(b∈{1,2,3}, denom∈{uxx,uyy}, amt∈{0,1}; on bridge 1 also two 128-character denoms (the maximal legal length) that share their first 127 characters; (to,data)∈{(short,∅),(long non-ASCII,bytes)}, sender∈{funded, unfunded}); plain bank transfers to the escrow address of bridge 1 (a denom not deposited yet) and of bridge 2 (before and after its creation)"
			res.Coverage["oracle"] = "accepted ⇒ bridge exists, response sequence = per-bridge model counter, exactly one initiate_token_deposit event whose 8 attributes equal the request, sender/escrow balances moved by the amount, pair = independent L2-denom derivation and never changes; NextL1Sequence / TokenPairs (whole and paged) / TokenPairByL1Denom / TokenPairByL2Denom queries = model in every state; a created bridge has nothing pre-recorded; rejected ⇒ digest unchanged"
			res.Assumptions = []string{"3 bridge ids, 2 denoms, amounts 0 and 1"}
			for _, k := range []string{"Deposit/accepted", "Deposit/rejected", "CreateBridge/accepted"} {
				res.Require(res.OutcomeCount("c10", k) > 0, "outcome %s never occurred", k)
			}
			res.Require(res.OutcomeCount("c10", "Deposit/rejected-though-valid") == 0, "a valid funded deposit into an existing bridge was rejected")
			return res
		},
		Replay: func(kind string, path []string) ([]string, *engine.Violation, error) {
			return engine.Replay[*c10State](c10Sys{}, path)
		},
	})
}
