package props

import (
	"bytes"
	"fmt"
	"os"
	"strings"
	"time"

	"cosmossdk.io/math"
	sdk "github.com/cosmos/cosmos-sdk/types"
	"github.com/cosmos/gogoproto/proto"

	ophosttypes "github.com/initia-labs/OPinit/x/ophost/types"

	"verifmc/engine"
	"verifmc/ref"
	"verifmc/world"
)

// C17 — commitment and identifier formats match the published spec; verification is pure.
// Exhaustive enumeration over value menus × tree shapes × memory layouts (no search over histories:
// the functions are stateless; a "state" here is one (input, memory layout) configuration).

func repoImpl() ref.Impl {
	return ref.Impl{
		Leaf:       ophosttypes.GenerateWithdrawalHash,
		Node:       ophosttypes.GenerateNodeHash,
		OutputRoot: ophosttypes.GenerateOutputRoot,
		L2Denom:    ophosttypes.L2Denom,
		BridgeAddress: func(id uint64) []byte {
			return ophosttypes.BridgeAddress(id)
		},
	}
}

var c17Nums = []uint64{0, 1, 255, 256, 1 << 32, 1<<63 - 1, 1 << 63, 1<<64 - 1}
var c17Strs = []string{"", "a", strings.Repeat("x", 31), strings.Repeat("x", 32), strings.Repeat("x", 33), strings.Repeat("y", 200), "дэном/ü", "a\x00b",
	// lengths around the longest legal denom, and strings that already look like a derived denom
	strings.Repeat("d", 120), strings.Repeat("d", 121), strings.Repeat("d", 127) + "e", strings.Repeat("d", 127) + "f",
	"l2/abc", "l2/" + strings.Repeat("0", 64)}

func vectorsPath() string {
	d := os.Getenv("VERIF_DIR")
	if d == "" {
		d = "/verif"
	}
	return d + "/vectors/formats.json"
}

type c17Counter struct {
	evals, layouts int64
	samples        []any
}

func c17Nodes() [][]byte {
	mk := func(f func(b []byte)) []byte { b := make([]byte, 32); f(b); return b }
	h1, h2 := ref.Sum256([]byte("1")), ref.Sum256([]byte("2"))
	adj := append([]byte{}, h1[:]...)
	adj[31]++
	return [][]byte{
		mk(func(b []byte) {}),
		mk(func(b []byte) {
			for i := range b {
				b[i] = 0xff
			}
		}),
		mk(func(b []byte) { b[31] = 1 }),
		mk(func(b []byte) { b[0] = 1 }),
		h1[:], h2[:], adj,
	}
}

// layouts: 0 = own allocation with exact capacity, 1 = own allocation with spare capacity filled
// with a sentinel, 2 = sub-slice of one contiguous buffer whose capacity runs into what follows.
type c17Mem struct {
	slices  [][]byte // the slices handed to the function under test
	backing [][]byte // every backing array in full (len = cap)
	copies  [][]byte // pristine copies of the backing arrays
}

const c17Sentinel = 0xA5

func c17Layout(values [][]byte, layout []int) *c17Mem {
	m := &c17Mem{}
	var contiguous []int
	for i, l := range layout {
		if l == 2 {
			contiguous = append(contiguous, i)
		}
	}
	var buf []byte
	if len(contiguous) > 0 {
		total := 0
		for _, i := range contiguous {
			total += len(values[i])
		}
		buf = make([]byte, total+64)
		for i := range buf {
			buf[i] = c17Sentinel
		}
		m.backing = append(m.backing, buf)
	}
	off := 0
	m.slices = make([][]byte, len(values))
	for i, v := range values {
		switch layout[i] {
		case 0:
			s := make([]byte, len(v))
			copy(s, v)
			m.slices[i] = s
			m.backing = append(m.backing, s[:cap(s)])
		case 1:
			s := make([]byte, len(v), len(v)+96)
			copy(s, v)
			full := s[:cap(s)]
			for j := len(v); j < len(full); j++ {
				full[j] = c17Sentinel
			}
			m.slices[i] = s
			m.backing = append(m.backing, full)
		case 2:
			copy(buf[off:], v)
			m.slices[i] = buf[off : off+len(v)] // capacity runs to the end of buf
			off += len(v)
		}
	}
	for _, b := range m.backing {
		m.copies = append(m.copies, append([]byte{}, b...))
	}
	return m
}

func (m *c17Mem) mutated() bool {
	for i := range m.backing {
		if !bytes.Equal(m.backing[i], m.copies[i]) {
			return true
		}
	}
	return false
}

func allLayouts(n int) [][]int {
	if n == 0 {
		return [][]int{{}}
	}
	var out [][]int
	for _, rest := range allLayouts(n - 1) {
		for l := 0; l < 3; l++ {
			out = append(out, append([]int{l}, rest...))
		}
	}
	return out
}

// c17Only, when set (replay), keeps only the violations of one named evaluation.
var c17Only string

func c17Run(rc *engine.RunCtx) *engine.Result {
	res := engine.NewResult()
	known := rc.Known.Matcher(rc.Property)
	report := func(v *engine.Violation, name string) {
		if c17Only != "" && name != c17Only {
			return
		}
		v.Path = []string{name, "tier=" + rc.Tier} // the families run in the tier's order: process-wide memory of the code under test is part of the witness
		v.Tags["search"] = "formats"
		if id, ok := known(v); ok {
			res.KnownHits[id]++
			if _, have := res.KnownWit[id]; !have {
				res.KnownWit[id] = v
			}
			return
		}
		if len(res.Violations) < 50 {
			res.Violations = append(res.Violations, v)
		}
	}
	var evals, states int64

	// 0. the reference itself and the repository against the pinned vectors
	n, bad, err := ref.CheckVectors(vectorsPath(), ref.RefImpl(), true)
	if err != nil || len(bad) > 0 {
		res.HarnessErr = fmt.Errorf("independent reference disagrees with the pinned vectors: %v %v", bad, err)
		return res
	}
	n2, bad2, _ := ref.CheckVectors(vectorsPath(), repoImpl(), false)
	evals += int64(n + n2)
	for _, b := range bad2 {
		report(tagged(viol("formats-match-pinned-vectors", "repository value differs from the pinned vector: %s", b), "vector", strings.SplitN(b, "(", 2)[0]), "vector:"+b)
	}

	// 1. leaf hash over the full menu product, repository vs independent implementation
	for _, b := range c17Nums {
		for _, seq := range c17Nums {
			for _, amt := range c17Nums {
				for si, snd := range c17Strs {
					for ri, rcv := range c17Strs {
						den := c17Strs[(si+ri)%len(c17Strs)]
						evals++
						if ophosttypes.GenerateWithdrawalHash(b, seq, snd, rcv, den, amt) != ref.Leaf(b, seq, snd, rcv, den, amt) {
							report(viol("leaf-hash-matches-format", "leaf(bridge=%d seq=%d sender=%q receiver=%q denom=%q amount=%d) differs", b, seq, snd, rcv, den, amt), "leaf")
						}
					}
				}
			}
		}
	}
	for _, den := range c17Strs {
		for _, snd := range c17Strs[:3] {
			evals++
			if ophosttypes.GenerateWithdrawalHash(1, 2, snd, "r", den, 3) != ref.Leaf(1, 2, snd, "r", den, 3) {
				report(viol("leaf-hash-matches-format", "leaf with denom %q differs", den), "leaf-denom")
			}
		}
	}
	// 2. L2 denom and bridge address
	for _, b := range c17Nums {
		for _, d := range c17Strs {
			evals++
			if ophosttypes.L2Denom(b, d) != ref.L2Denom(b, d) {
				report(viol("l2-denom-matches-format", "L2Denom(%d,%q) differs", b, d), "l2denom")
			}
		}
		evals++
		if !bytes.Equal(ophosttypes.BridgeAddress(b), ref.BridgeAddress(b)) {
			report(viol("bridge-address-matches-format", "BridgeAddress(%d) differs", b), "bridge-address")
		}
	}
	// 3. node hash: every ordered pair, order independence, every memory layout of the two arguments
	nodes := c17Nodes()
	for _, a := range nodes {
		for _, b := range nodes {
			want := ref.Node(a, b)
			for _, lay := range allLayouts(2) {
				m := c17Layout([][]byte{a, b}, lay)
				states++
				evals += 2
				got := ophosttypes.GenerateNodeHash(m.slices[0], m.slices[1])
				name := fmt.Sprintf("node(a=%x..,b=%x..,layout=%v)", a[:2], b[:2], lay)
				if got != want {
					report(tagged(viol("node-hash-matches-format", "%s = %x, expected %x", name, got[:4], want[:4]), "layout", fmt.Sprint(lay)), name)
				}
				if m.mutated() {
					report(tagged(viol("verification-never-modifies-caller-bytes", "%s modified the caller's memory (bytes beyond the slice length or a neighbouring element)", name), "function", "GenerateNodeHash"), name)
				}
				m2 := c17Layout([][]byte{b, a}, lay)
				if ophosttypes.GenerateNodeHash(m2.slices[0], m2.slices[1]) != got {
					report(viol("node-hash-is-order-independent", "%s differs when the arguments are swapped", name), name)
				}
			}
		}
	}
	// 4. output root under every layout of (storage root, block hash)
	for _, ver := range []byte{0, 1, 0x7f, 0x80, 0xff} {
		for _, sr := range nodes[:4] {
			for _, bh := range nodes[3:] {
				want := ref.OutputRoot(ver, sr, bh)
				for _, lay := range allLayouts(2) {
					m := c17Layout([][]byte{sr, bh}, lay)
					states++
					evals++
					if got := ophosttypes.GenerateOutputRoot(ver, m.slices[0], m.slices[1]); got != want {
						report(viol("output-root-matches-format", "output root (version %d, layout %v) differs", ver, lay), "output-root")
					}
					if m.mutated() {
						report(tagged(viol("verification-never-modifies-caller-bytes", "GenerateOutputRoot modified the caller's memory (layout %v)", lay), "function", "GenerateOutputRoot"), "output-root")
					}
				}
			}
		}
	}
	// 5. root from proofs: trees 1..9, every position, every layout of the proof list (≤ 3^4 layouts)
	maxN := 9
	for nleaves := 1; nleaves <= maxN; nleaves++ {
		var leaves [][32]byte
		for k := 0; k < nleaves; k++ {
			leaves = append(leaves, ref.Leaf(1, uint64(k+1), fmt.Sprintf("from%d", k), fmt.Sprintf("to%d", k), "uinit", uint64(1000+k)))
		}
		tr := ref.BuildTree(leaves)
		for pos := 0; pos < nleaves; pos++ {
			proof := tr.Proof(pos)
			want := tr.Root()
			for _, lay := range allLayouts(len(proof)) {
				m := c17Layout(proof, lay)
				states++
				evals++
				got := ophosttypes.GenerateRootHashFromProofs(leaves[pos], m.slices)
				name := fmt.Sprintf("root-from-proofs(n=%d,pos=%d,layout=%v)", nleaves, pos, lay)
				if got != want {
					report(tagged(viol("root-depends-only-on-byte-values", "%s = %x.., expected %x..", name, got[:4], want[:4]), "function", "GenerateRootHashFromProofs"), name)
				}
				if m.mutated() {
					report(tagged(viol("verification-never-modifies-caller-bytes", "%s modified the caller's proof memory", name), "function", "GenerateRootHashFromProofs"), name)
				}
			}
		}
	}
	// 5a. long sibling paths (a sparse tree is a legal commitment: the root is whatever the fold gives):
	// lengths around every power of two up to 64 and well past it, folded by the independent implementation
	for _, depth := range []int{15, 16, 17, 31, 32, 33, 40, 63, 64, 65, 100} {
		leaf := ref.Leaf(1, 7, "deep-from", "deep-to", "uinit", 5)
		var proof [][]byte
		cur := leaf
		for k := 0; k < depth; k++ {
			sib := ref.Sum256([]byte(fmt.Sprintf("sibling %d of %d", k, depth)))
			proof = append(proof, append([]byte{}, sib[:]...))
			cur = ref.Node(cur[:], sib[:])
		}
		m := c17Layout(proof, make([]int, len(proof)))
		states++
		evals++
		got := ophosttypes.GenerateRootHashFromProofs(leaf, m.slices)
		name := fmt.Sprintf("root-from-proofs(path of %d siblings)", depth)
		if got != cur {
			report(tagged(viol("root-depends-only-on-byte-values", "%s = %x.., expected %x..", name, got[:4], cur[:4]), "function", "GenerateRootHashFromProofs"), name)
		}
		if m.mutated() {
			report(tagged(viol("verification-never-modifies-caller-bytes", "%s modified the caller's proof memory", name), "function", "GenerateRootHashFromProofs"), name)
		}
	}
	// 5b. history independence: every ordered pair (and, thorough, triple) of calls whose inputs are
	// written into the SAME memory (one outer list, one buffer per element, overwritten in place
	// between calls) — the answer to each call is the reference's answer for the bytes it was given,
	// whatever was asked before.
	{
		type inp struct {
			name  string
			leaf  [32]byte
			proof [][]byte
		}
		var menu []inp
		for _, nleaves := range []int{3, 5} {
			var leaves [][32]byte
			for k := 0; k < nleaves; k++ {
				leaves = append(leaves, ref.Leaf(1, uint64(k+1), fmt.Sprintf("from%d", k), fmt.Sprintf("to%d", k), "uinit", uint64(1000+k)))
			}
			tr := ref.BuildTree(leaves)
			for pos := 0; pos < nleaves; pos++ {
				proof := tr.Proof(pos)
				cp := func() [][]byte {
					var o [][]byte
					for _, e := range proof {
						o = append(o, append([]byte{}, e...))
					}
					return o
				}
				menu = append(menu, inp{fmt.Sprintf("n=%d,pos=%d,valid", nleaves, pos), leaves[pos], cp()})
				f0 := cp()
				f0[0][0] ^= 1
				menu = append(menu, inp{fmt.Sprintf("n=%d,pos=%d,first-element-bit-flipped", nleaves, pos), leaves[pos], f0})
				fl := cp()
				fl[len(fl)-1][31] ^= 0x80
				menu = append(menu, inp{fmt.Sprintf("n=%d,pos=%d,last-element-bit-flipped", nleaves, pos), leaves[pos], fl})
				if len(proof) >= 2 {
					sw := cp()
					sw[0], sw[1] = sw[1], sw[0]
					menu = append(menu, inp{fmt.Sprintf("n=%d,pos=%d,elements-swapped", nleaves, pos), leaves[pos], sw})
				}
			}
		}
		depth := 2
		if rc.Thorough() {
			depth = 3
		}
		const maxProof = 4
		outer := make([][]byte, maxProof)
		bufs := make([][]byte, maxProof)
		for i := range bufs {
			bufs[i] = make([]byte, 32)
		}
		var seqs int64
		var walk func(hist []int)
		walk = func(hist []int) {
			if len(hist) == depth {
				return
			}
			for i := range menu {
				h := append(append([]int{}, hist...), i)
				// replay the whole history on the shared memory, then ask the last question
				var got [32]byte
				for _, j := range h {
					in := menu[j]
					for e := range in.proof {
						copy(bufs[e], in.proof[e])
						outer[e] = bufs[e]
					}
					evals++
					got = ophosttypes.GenerateRootHashFromProofs(in.leaf, outer[:len(in.proof)])
				}
				seqs++
				states++
				last := menu[i]
				if want := ref.RootFromProof(last.leaf, last.proof); got != want {
					var names []string
					for _, j := range h {
						names = append(names, menu[j].name)
					}
					name := "root-from-proofs-history(" + strings.Join(names, " ; ") + ")"
					report(tagged(viol("root-depends-only-on-byte-values", "%s: the last call returned %x.., the bytes it was given hash to %x.. (the answer depends on an earlier call that used the same memory)", name, got[:4], want[:4]), "function", "GenerateRootHashFromProofs", "kind", "history"), name)
					continue
				}
				walk(h)
			}
		}
		walk(nil)
		// the same for the node hash: ordered pairs of argument pairs in two reused buffers
		ba, bb := make([]byte, 32), make([]byte, 32)
		for _, a1 := range nodes {
			for _, b1 := range nodes {
				for _, a2 := range nodes {
					for _, b2 := range nodes {
						copy(ba, a1)
						copy(bb, b1)
						ophosttypes.GenerateNodeHash(ba, bb)
						copy(ba, a2)
						copy(bb, b2)
						evals += 2
						seqs++
						if got, want := ophosttypes.GenerateNodeHash(ba, bb), ref.Node(a2, b2); got != want {
							name := fmt.Sprintf("node-history((%x..,%x..) ; (%x..,%x..))", a1[:2], b1[:2], a2[:2], b2[:2])
							report(tagged(viol("node-hash-matches-format", "%s: second call on the same buffers returned %x.., expected %x..", name, got[:4], want[:4]), "kind", "history"), name)
						}
					}
				}
			}
		}
		res.Coverage["call_histories_on_shared_memory"] = map[string]any{"root_from_proofs_menu": len(menu), "history_length": depth, "histories": seqs}
	}
	// 6. the message handler gives the same verdict for the same claim under every layout
	verdicts := c17HandlerLayouts(report, &states, &evals)
	res.Coverage["handler_layout_verdicts"] = verdicts

	res.Coverage["states"] = states
	res.Coverage["transitions"] = evals
	res.Coverage["traces_validated_against_impl"] = evals
	res.Coverage["evaluations"] = evals
	res.Coverage["distinct_nontrivial"] = states
	res.Coverage["rule"] = "states = distinct (input values, memory layout) configurations handed to the repository's functions; transitions = calls of the repository's functions compared with the independent implementation; every configuration of the stated menus is enumerated"
	res.Coverage["exhaustive"] = true
	res.Coverage["menus"] = map[string]any{"numbers": c17Nums, "strings": len(c17Strs), "nodes": len(nodes), "trees": "1..9 leaves, every position", "layouts": "3^n per list of n byte slices: exact-capacity allocation | spare capacity with sentinel | sub-slice of one contiguous buffer"}
	res.AddSample(map[string]any{"case": "leaf(bridge=2^63, seq=1, sender=\"\", receiver=31×x, denom=..., amount=2^64-1) repository vs reference"})
	res.AddSample(map[string]any{"case": "root-from-proofs(n=5,pos=4,layout=[2 2 2]): three proof elements laid out in one buffer"})
	res.AddSample(map[string]any{"case": "FinalizeTokenWithdrawal(valid claim, proofs layout [1 2]) verdict and caller bytes"})
	res.Assumptions = []string{"64-bit ranges are represented by boundary values, not enumerated", "independent SHA3-256 pinned against Python hashlib vectors"}
	return res
}

// c17HandlerLayouts: a valid claim for every leaf of a 5-leaf tree, for every combination of bridge
// id ∈ {1,2} and output index ∈ {1,2} (the chain-computed leaf must carry the bridge id, whatever the
// output index is); the proofs in every memory layout for (bridge 1, output 2), in the plain layout
// elsewhere.
func c17HandlerLayouts(report func(*engine.Violation, string), states, evals *int64) map[string]int {
	w := newL1TwoBridges(10 * time.Second)
	bob := world.Addr("bob").String()
	ctx := w.Ctx
	mustOK := func(r world.DeliverResult) {
		if !r.OK() {
			panic(r.Err)
		}
	}
	trees := map[uint64]*wtree{}
	var wss [3][]wd
	for b := uint64(1); b <= 2; b++ {
		for i := 0; i < 5; i++ {
			wss[b] = append(wss[b], wd{Bridge: b, Seq: uint64(i + 1), From: "l2user", To: bob, Denom: "uxx", Amount: uint64(i + 1)})
		}
		trees[b] = mkTree(fmt.Sprintf("c17-b%d", b), wss[b], 3)
		mustOK(w.Deliver(ctx, ophosttypes.NewMsgInitiateTokenDeposit(world.Addr("alice").String(), b, "l2", world.Coin("uxx", 40), nil)))
		mustOK(w.Deliver(ctx, ophosttypes.NewMsgProposeOutput(world.Addr("proposer").String(), b, 1, 10, trees[b].OutputRoot[:])))
		mustOK(w.Deliver(ctx, ophosttypes.NewMsgProposeOutput(world.Addr("proposer").String(), b, 2, 20, trees[b].OutputRoot[:])))
	}
	ctx = world.Advance(ctx, 11*time.Second)
	verdicts := map[string]int{}
	for b := uint64(1); b <= 2; b++ {
		for idx := uint64(1); idx <= 2; idx++ {
			t, ws := trees[b], wss[b]
			for leaf := range ws {
				proof := t.Tree.Proof(leaf)
				values := append(append([][]byte{}, proof...), t.StorageRoot[:], t.BlockHash)
				lays := [][]int{make([]int, len(values))}
				if b == 1 && idx == 2 {
					lays = allLayouts(len(values))
				}
				for _, lay := range lays {
					m := c17Layout(values, lay)
					np := len(proof)
					msg := &ophosttypes.MsgFinalizeTokenWithdrawal{Sender: bob, BridgeId: b, OutputIndex: idx, WithdrawalProofs: m.slices[:np], From: "l2user", To: bob, Sequence: ws[leaf].Seq,
						Amount: sdk.NewCoin("uxx", math.NewIntFromUint64(ws[leaf].Amount)), Version: []byte{3}, StorageRoot: m.slices[np], LastBlockHash: m.slices[np+1]}
					bctx, _ := ctx.CacheContext()
					r := w.Deliver(bctx, msg)
					*states++
					*evals++
					name := fmt.Sprintf("FinalizeTokenWithdrawal(bridge=%d,output=%d,leaf=%d,layout=%v)", b, idx, leaf, lay)
					if !r.OK() {
						verdicts["rejected"]++
						report(tagged(viol("verdict-depends-only-on-byte-values", "%s: a claim that is valid by the documented leaf / tree / output-root formats was rejected: %v", name, r.Err), "function", "FinalizeTokenWithdrawal"), name)
					} else {
						verdicts["accepted"]++
					}
					if m.mutated() {
						report(tagged(viol("verification-never-modifies-caller-bytes", "%s modified the caller's message bytes", name), "function", "FinalizeTokenWithdrawal"), name)
					}
				}
			}
		}
	}
	// CreateBridge derives the bridge escrow address: for every spelling of the role addresses and every
	// layout of the metadata bytes the caller's message must come back byte-identical, and the account
	// created must be the documented address of the returned id
	for _, pu := range []bool{false, true} {
		for _, cu := range []bool{false, true} {
			for _, lay := range allLayouts(1) {
				sp := func(n string, up bool) string {
					if up {
						return strings.ToUpper(world.Addr(n).String())
					}
					return world.Addr(n).String()
				}
				m := c17Layout([][]byte{[]byte("c17-metadata")}, lay)
				cfg := world.BridgeConfig("proposer", "challenger", 10*time.Second)
				cfg.Proposer, cfg.Challenger, cfg.Metadata = sp("proposer", pu), sp("challenger", cu), m.slices[0]
				msg := ophosttypes.NewMsgCreateBridge(world.Addr("creator").String(), cfg)
				before, _ := proto.Marshal(msg)
				bctx, _ := ctx.CacheContext()
				r := w.Deliver(bctx, msg)
				after, _ := proto.Marshal(msg)
				*states++
				*evals++
				name := fmt.Sprintf("CreateBridge(proposer-upper-case=%v,challenger-upper-case=%v,metadata-layout=%v)", pu, cu, lay)
				if !r.OK() {
					verdicts["create-bridge-rejected"]++
					report(tagged(viol("verdict-depends-only-on-byte-values", "%s: rejected: %v", name, r.Err), "function", "CreateBridge"), name)
					continue
				}
				verdicts["create-bridge-accepted"]++
				id := r.Resp.(*ophosttypes.MsgCreateBridgeResponse).BridgeId
				if !w.AK.HasAccount(bctx, sdk.AccAddress(ref.BridgeAddress(id))) {
					report(tagged(viol("bridge-address-format", "%s: no account at the documented escrow address of bridge %d", name, id), "function", "CreateBridge"), name)
				}
				if !bytes.Equal(before, after) || m.mutated() {
					report(tagged(viol("verification-never-modifies-caller-bytes", "%s modified the caller's message (%x -> %x)", name, before, after), "function", "CreateBridge"), name)
				}
			}
		}
	}
	return verdicts
}

func init() {
	register(&Check{ID: "C17", Level: "model_checking",
		// the formats are package-level functions: what they keep in memory is per process, so a witness
		// is confirmed in new processes
		FreshProcessReplay: true,
		Run:                c17Run,
		Replay: func(kind string, path []string) ([]string, *engine.Violation, error) {
			rc := &engine.RunCtx{Property: "C17", Tier: "thorough", Known: &engine.KnownFile{}, Start: time.Now(), Budget: time.Minute}
			if len(path) == 2 && path[1] == "tier=quick" {
				rc.Tier = "quick"
			}
			if len(path) == 0 {
				return nil, nil, nil
			}
			c17Only = path[0]
			defer func() { c17Only = "" }()
			res := c17Run(rc)
			for _, v := range res.Violations {
				if len(v.Path) >= 1 && v.Path[0] == path[0] {
					return []string{"violation"}, v, nil
				}
			}
			return nil, nil, nil
		},
	})
}
