package props

import (
	"fmt"
	"time"

	"verifmc/engine"
)

// C14 — a registered executor-change plan replaces the sequencer safely and exactly once.

func init() {
	register(&Check{ID: "C14", Level: "model_checking",
		Run: func(rc *engine.RunCtx) *engine.Result {
			res := engine.NewResult()
			for i, name := range vsGenesisOrder[:2] {
				o := opts(rc, pick(rc, 5, 6))
				o.Deadline = time.Now().Add(time.Until(rc.Deadline()) / time.Duration(2-i))
				rep, err := engine.Explore[*vsState](&vsSys{genesis: vsGenesisMenu[name], withPlan: true}, o)
				if err != nil {
					res.HarnessErr = err
					return res
				}
				res.Absorb(name, rep)
				for _, k := range []string{"RegisterPlan/registered", "NextBlock/plan-executed", "NextBlock/ok"} {
					res.Require(res.OutcomeCount(name, k) > 0, "%s: outcome %s never occurred", name, k)
				}
			}
			res.Coverage["alphabet"] = "C13's alphabet plus RegisterPlan(height∈{h,h+1}; operator∈{o1,o2,o3} × key∈{k1,k2,k3} with executors [e2]; o3/k3 with executors [e1,e2] and []), at most one plan per history; in every state the malformed-registration probes (proposal id 0, height 0, undecodable / non-JSON key, bad operator, operator with account prefix, bad executor, duplicate height)"
			res.Coverage["oracle"] = "C13's block-boundary oracle at every height (so no validator update is attributable to the plan before or after its height) plus, at the plan height: EndBlock succeeds, the batch is accepted by the CometBFT mirror, the mirror holds exactly {(plan key,1)}, state agrees, indexes stay one-to-one; bridge executors = genesis list before and exactly the plan list after; malformed registrations fail and leave plan table and digest unchanged"
			res.Assumptions = []string{"the plan table is process-local keeper memory: each state carries its own copy which is installed into the keeper for every transition"}
			return res
		},
		Replay: func(kind string, path []string) ([]string, *engine.Violation, error) {
			g, ok := vsGenesisMenu[kind]
			if !ok {
				return nil, nil, fmt.Errorf("unknown replay kind %q", kind)
			}
			return engine.Replay[*vsState](&vsSys{genesis: g, withPlan: true}, path)
		},
	})
}
