package props

import (
	"bytes"
	"encoding/hex"
	"fmt"
	"math/big"
	"strconv"
	"strings"
	"sync"
	"sync/atomic"
	"time"

	cometabci "github.com/cometbft/cometbft/abci/types"
	cmtproto "github.com/cometbft/cometbft/proto/tendermint/types"
	cryptocodec "github.com/cosmos/cosmos-sdk/crypto/codec"
	"github.com/cosmos/cosmos-sdk/crypto/keys/ed25519"
	sdk "github.com/cosmos/cosmos-sdk/types"
	protoio "github.com/cosmos/gogoproto/io"

	connectcodec "github.com/skip-mev/connect/v2/abci/strategies/codec"
	"github.com/skip-mev/connect/v2/abci/strategies/currencypair"
	vetypes "github.com/skip-mev/connect/v2/abci/ve/types"
	connecttypes "github.com/skip-mev/connect/v2/pkg/types"
	oracletypes "github.com/skip-mev/connect/v2/x/oracle/types"

	opchildtypes "github.com/initia-labs/OPinit/x/opchild/types"

	"verifmc/engine"
	"verifmc/world"
)

// C15 — L1 oracle prices reach L2 only with a signed two-thirds quorum, never backwards.

const (
	c15Client  = "07-tendermint-0"
	c15ChainID = "l1-verif"
	c15Round   = 2
)

var c15Pairs = []string{"BTC/USD", "ETH/USD", "TIMESTAMP/NANOSECOND"}

// c15UntrackedPair is priced by L1 validators but not registered in this L2's oracle module (an L2
// normally tracks a subset of L1's pairs).
const c15UntrackedPair = "ATOM/USD"

// shWithUntracked (used by C18): signed(p) plus a price for the untracked pair. Not part of C15's matrix.
const shWithUntracked = 100

// shUntrackedFew (used by C18): signed, prices the untracked pair but not every tracked one (as many ids as the chain tracks).
const shUntrackedFew = 101

type c15Set struct {
	name   string
	vals   []string // key names
	powers []int64
}

var c15Sets = map[string]c15Set{
	"V(1,1,1)":    {"V(1,1,1)", []string{"hv1", "hv2", "hv3"}, []int64{1, 1, 1}},
	"V(3,1,1)":    {"V(3,1,1)", []string{"hv1", "hv2", "hv3"}, []int64{3, 1, 1}},
	"V(2,1,1,1)":  {"V(2,1,1,1)", []string{"hv1", "hv2", "hv3", "hv4"}, []int64{2, 1, 1, 1}},
	"V(34,33,33)": {"V(34,33,33)", []string{"hv1", "hv2", "hv3"}, []int64{34, 33, 33}}, // two of them hold 66 %: just under two thirds
	"V(100,10,1)": {"V(100,10,1)", []string{"hv1", "hv2", "hv3"}, []int64{100, 10, 1}}, // C18's set
	"V'":          {"V'", []string{"hw1", "hw2", "hw3"}, []int64{1, 1, 1}},
}

func (s c15Set) proto() *cmtproto.ValidatorSet {
	vs := &cmtproto.ValidatorSet{}
	for i, n := range s.vals {
		pk := world.EdKey(n).PubKey()
		cpk, err := cryptocodec.ToCmtProtoPublicKey(pk)
		if err != nil {
			panic(err)
		}
		vs.Validators = append(vs.Validators, &cmtproto.Validator{Address: pk.Address(), PubKey: cpk, VotingPower: s.powers[i]})
	}
	return vs
}

func (s c15Set) total() int64 {
	t := int64(0)
	for _, p := range s.powers {
		t += p
	}
	return t
}

// vote shapes
const (
	shAbsent = iota
	shPriceP
	shPriceQ
	shNoBTC
	shNoTimestamp
	shBadSig
	shOtherChain
	shOtherHeight
	shOtherRound
	shTwice
	shNonCommitEmpty
	shNonCommitWithExt
	shNonCommitExtNoSig
	shNonCommitSigNoExt
	shCommitExtNoSig
	shSignedGarbage
	shSignedThenForged
	shUnknownFlagExtNoSig // block-id flag 0 (the proto default, neither commit nor absent nor nil) with an unsigned extension
	shSuffixedAddresses   // a genuine vote, listed again under the validator's address followed by 01 and by 02 (21 bytes: nobody's address)
	numShapes
)

var c15ShapeNames = []string{"absent", "signed(p)", "signed(q)", "signed-noBTC", "signed-noTimestamp", "bad-signature", "other-chain-id", "other-height", "other-round", "listed-twice", "non-commit-empty", "non-commit-with-extension", "non-commit-extension-unsigned", "non-commit-signature-only", "commit-extension-unsigned", "signed-undecodable-extension", "signed(p)-then-a-forged-duplicate", "unknown-flag-extension-unsigned", "signed(p)-and-again-under-suffixed-addresses"}

type c15State struct {
	ctx    sdk.Context
	w      *world.L2
	set    string
	hostH  int64
	depth  int
	flagOn bool
	client string // the L1 client id stored in the bridge info ("" = not configured yet)
}

type c15Sys struct {
	unsetClient bool // the bridge info starts without an L1 client id
	initial     string
	probeDepth  int
	genesisVals [][2]string // L2 genesis validators (used by C18)
	mu          sync.Mutex
	extCache    map[string][]byte
	sigCache    map[string][]byte
	probes      atomic.Int64
	changed     atomic.Int64
	atLine      atomic.Int64
	rejected    atomic.Int64
	reasons     sync.Map
}

// c15Unset marks the configuration whose bridge info starts without an L1 client id (the state of
// a chain whose bridge info predates the field; SetBridgeInfo accepts it and lets it be set once).
const c15Unset = "/client-id-unset"

func c15SysFor(name string, probeDepth int) *c15Sys {
	y := newC15Sys(strings.TrimSuffix(name, c15Unset), probeDepth)
	y.unsetClient = strings.HasSuffix(name, c15Unset)
	return y
}

func newC15Sys(initial string, probeDepth int) *c15Sys {
	return &c15Sys{initial: initial, probeDepth: probeDepth, extCache: map[string][]byte{}, sigCache: map[string][]byte{}}
}

var (
	c15VeCodec = connectcodec.NewCompressionVoteExtensionCodec(connectcodec.NewDefaultVoteExtensionCodec(), connectcodec.NewZLibCompressor())
	c15EcCodec = connectcodec.NewCompressionExtendedCommitCodec(connectcodec.NewDefaultExtendedCommitCodec(), connectcodec.NewZStdCompressor())
)

func (y *c15Sys) Root() *c15State {
	w := world.NewL2(world.L2Options{Accounts: map[string]sdk.Coins{"executor": nil, "stranger": nil, "admin": nil}, Validators: y.genesisVals,
		Params: func(p *opchildtypes.Params) { p.MaxValidators = 6 }})
	ctx := w.Ctx
	w.OK.InitGenesis(ctx, oracletypes.GenesisState{CurrencyPairGenesis: []oracletypes.CurrencyPairGenesis{}})
	for _, p := range c15Pairs {
		cp, err := connecttypes.CurrencyPairFromString(p)
		if err != nil {
			panic(err)
		}
		if err := w.OK.CreateCurrencyPair(ctx, cp); err != nil {
			panic(err)
		}
	}
	client := c15Client
	if y.unsetClient {
		client = ""
	}
	info := c12Info(client)
	info.BridgeConfig.OracleEnabled = true
	if r := w.Deliver(ctx, opchildtypes.NewMsgSetBridgeInfo(world.Addr("executor").String(), info)); !r.OK() {
		panic(r.Err)
	}
	if y.unsetClient {
		// nothing can be recorded while no client id is configured: the oracle starts inert
		return &c15State{ctx: ctx, w: w, set: "", hostH: 0, flagOn: true, client: ""}
	}
	if err := w.K.UpdateHostValidatorSet(ctx, client, 10, c15Sets[y.initial].proto()); err != nil {
		panic(err)
	}
	return &c15State{ctx: ctx, w: w, set: y.initial, hostH: 10, flagOn: true, client: client}
}

// voters: the validators that sign in letters and probes — the recorded set, or, while none is
// recorded, the set the configuration would record.
func (y *c15Sys) voters(s *c15State) string {
	if s.set == "" {
		return y.initial
	}
	return s.set
}

// the model is part of the state key: a change that turns an operation into a no-op on the stores must
// not make the successor look like an already visited state (its model differs, and Check has to see it)
func (y *c15Sys) Digest(s *c15State) [32]byte {
	return s.w.Digest(s.ctx, []byte(fmt.Sprint(s.set, s.hostH, s.flagOn, s.client)))
}

// extension bytes for (price variant, included pairs, timestamp)
func (y *c15Sys) ext(s *c15State, price int64, pairs []string, ts int64) []byte {
	key := fmt.Sprintf("%d|%v|%d", price, pairs, ts)
	y.mu.Lock()
	if b, ok := y.extCache[key]; ok {
		y.mu.Unlock()
		return b
	}
	y.mu.Unlock()
	strat := currencypair.NewHashCurrencyPairStrategy(s.w.OK)
	prices := map[uint64][]byte{}
	for _, p := range pairs {
		cp, _ := connecttypes.CurrencyPairFromString(p)
		v := big.NewInt(price)
		if p == "ETH/USD" {
			v = big.NewInt(price / 10)
		}
		if p == "TIMESTAMP/NANOSECOND" {
			v = big.NewInt(ts)
		}
		enc, err := strat.GetEncodedPrice(s.ctx, cp, v)
		if err != nil {
			if p != c15UntrackedPair {
				panic(err)
			}
			enc, _ = v.GobEncode() // a pair this chain does not track: L1 validators price it all the same
		}
		id, err := currencypair.CurrencyPairToHashID(p)
		if err != nil {
			panic(err)
		}
		prices[id] = enc
	}
	bz, err := c15VeCodec.Encode(vetypes.OracleVoteExtension{Prices: prices})
	if err != nil {
		panic(err)
	}
	y.mu.Lock()
	y.extCache[key] = bz
	y.mu.Unlock()
	return bz
}

func (y *c15Sys) sign(keyName, chainID string, height int64, round int64, ext []byte) []byte {
	key := fmt.Sprintf("%s|%s|%d|%d|%x", keyName, chainID, height, round, ext)
	y.mu.Lock()
	if b, ok := y.sigCache[key]; ok {
		y.mu.Unlock()
		return b
	}
	y.mu.Unlock()
	cve := cmtproto.CanonicalVoteExtension{ChainId: chainID, Height: height, Round: round, Extension: ext}
	var buf bytes.Buffer
	if err := protoio.NewDelimitedWriter(&buf).WriteMsg(&cve); err != nil {
		panic(err)
	}
	sig, err := world.EdKey(keyName).Sign(buf.Bytes())
	if err != nil {
		panic(err)
	}
	y.mu.Lock()
	y.sigCache[key] = sig
	y.mu.Unlock()
	return sig
}

type c15Vote struct {
	key   string // signer identity (validator key name)
	shape int
}

// build returns the commit bytes and, per pair, the set of validator key names that (by the
// harness's own bookkeeping) supplied a price under a correct commit-flag signature.
func (y *c15Sys) build(s *c15State, votes []c15Vote, height uint64, ts int64) ([]byte, map[string]map[string]bool) {
	bz, good, _ := y.buildV(s, votes, height, ts)
	return bz, good
}

// buildV additionally returns, per pair, the set of price values that were supplied under a valid
// signature (a stake-weighted median is always one of its inputs).
func (y *c15Sys) buildV(s *c15State, votes []c15Vote, height uint64, ts int64) ([]byte, map[string]map[string]bool, map[string]map[string]bool) {
	eci := cometabci.ExtendedCommitInfo{Round: c15Round}
	good := map[string]map[string]bool{}
	vals := map[string]map[string]bool{}
	for _, p := range c15Pairs {
		good[p] = map[string]bool{}
		vals[p] = map[string]bool{}
	}
	priced := func(pairs []string, price int64) {
		for _, p := range pairs {
			v := price
			if p == "ETH/USD" {
				v = price / 10
			}
			if p == "TIMESTAMP/NANOSECOND" {
				v = ts
			}
			if _, ok := vals[p]; ok {
				vals[p][strconv.FormatInt(v, 10)] = true
			}
		}
	}
	signH := int64(height) - 1
	for _, v := range votes {
		addr := ed25519PubAddr(v.key)
		// the power an entry claims for itself is the submitter's to choose: the weakest validators of
		// the recorded set (and unknown ones) claim an enormous power, the others 1 — only the recorded
		// powers may count
		claimed := int64(1) << 40
		if set := c15Sets[y.voters(s)]; len(set.powers) > 0 {
			minP := set.powers[0]
			for _, p := range set.powers {
				if p < minP {
					minP = p
				}
			}
			for i, k := range set.vals {
				if k == v.key && set.powers[i] > minP {
					claimed = 1
				}
			}
		}
		entry := func(ext, sig []byte, flag cmtproto.BlockIDFlag) {
			eci.Votes = append(eci.Votes, cometabci.ExtendedVoteInfo{Validator: cometabci.Validator{Address: addr, Power: claimed}, VoteExtension: ext, ExtensionSignature: sig, BlockIdFlag: flag})
		}
		mark := func(pairs []string) {
			for _, p := range pairs {
				good[p][v.key] = true
			}
		}
		switch v.shape {
		case shAbsent:
		case shPriceP, shTwice:
			e := y.ext(s, 50000, c15Pairs, ts)
			entry(e, y.sign(v.key, c15ChainID, signH, c15Round, e), cmtproto.BlockIDFlagCommit)
			if v.shape == shTwice {
				entry(e, y.sign(v.key, c15ChainID, signH, c15Round, e), cmtproto.BlockIDFlagCommit)
			}
			mark(c15Pairs)
			priced(c15Pairs, 50000)
		case shSignedThenForged:
			// a genuine vote, then a second entry for the same validator with other prices and somebody
			// else's signature: the forged entry must contribute nothing, to the quorum or to the value
			e := y.ext(s, 50000, c15Pairs, ts)
			entry(e, y.sign(v.key, c15ChainID, signH, c15Round, e), cmtproto.BlockIDFlagCommit)
			f := y.ext(s, 90000, c15Pairs, ts)
			entry(f, y.sign("forger", c15ChainID, signH, c15Round, f), cmtproto.BlockIDFlagCommit)
			mark(c15Pairs)
			priced(c15Pairs, 50000)
		case shWithUntracked:
			ps := append(append([]string{}, c15Pairs...), c15UntrackedPair)
			e := y.ext(s, 50000, ps, ts)
			entry(e, y.sign(v.key, c15ChainID, signH, c15Round, e), cmtproto.BlockIDFlagCommit)
			mark(c15Pairs)
			priced(c15Pairs, 50000)
		case shUntrackedFew:
			ps := []string{"BTC/USD", c15UntrackedPair, "TIMESTAMP/NANOSECOND"}
			e := y.ext(s, 50000, ps, ts)
			entry(e, y.sign(v.key, c15ChainID, signH, c15Round, e), cmtproto.BlockIDFlagCommit)
			mark([]string{"BTC/USD", "TIMESTAMP/NANOSECOND"})
			priced(ps, 50000)
		case shPriceQ:
			e := y.ext(s, 70000, c15Pairs, ts)
			entry(e, y.sign(v.key, c15ChainID, signH, c15Round, e), cmtproto.BlockIDFlagCommit)
			mark(c15Pairs)
			priced(c15Pairs, 70000)
		case shNoBTC:
			ps := []string{"ETH/USD", "TIMESTAMP/NANOSECOND"}
			e := y.ext(s, 50000, ps, ts)
			entry(e, y.sign(v.key, c15ChainID, signH, c15Round, e), cmtproto.BlockIDFlagCommit)
			mark(ps)
			priced(ps, 50000)
		case shNoTimestamp:
			ps := []string{"BTC/USD", "ETH/USD"}
			e := y.ext(s, 50000, ps, ts)
			entry(e, y.sign(v.key, c15ChainID, signH, c15Round, e), cmtproto.BlockIDFlagCommit)
			mark(ps)
			priced(ps, 50000)
		case shBadSig:
			e := y.ext(s, 90000, c15Pairs, ts)
			entry(e, y.sign("forger", c15ChainID, signH, c15Round, e), cmtproto.BlockIDFlagCommit)
		case shOtherChain:
			e := y.ext(s, 90000, c15Pairs, ts)
			entry(e, y.sign(v.key, "other-chain", signH, c15Round, e), cmtproto.BlockIDFlagCommit)
		case shOtherHeight:
			e := y.ext(s, 90000, c15Pairs, ts)
			entry(e, y.sign(v.key, c15ChainID, signH-1, c15Round, e), cmtproto.BlockIDFlagCommit)
		case shOtherRound:
			e := y.ext(s, 90000, c15Pairs, ts)
			entry(e, y.sign(v.key, c15ChainID, signH, c15Round+1, e), cmtproto.BlockIDFlagCommit)
		case shNonCommitEmpty:
			entry(nil, nil, cmtproto.BlockIDFlagAbsent)
		case shNonCommitWithExt:
			e := y.ext(s, 90000, c15Pairs, ts)
			entry(e, y.sign(v.key, c15ChainID, signH, c15Round, e), cmtproto.BlockIDFlagNil)
		case shNonCommitExtNoSig:
			entry(y.ext(s, 90000, c15Pairs, ts), nil, cmtproto.BlockIDFlagNil)
		case shNonCommitSigNoExt:
			e := y.ext(s, 90000, c15Pairs, ts)
			entry(nil, y.sign(v.key, c15ChainID, signH, c15Round, e), cmtproto.BlockIDFlagAbsent)
		case shCommitExtNoSig:
			entry(y.ext(s, 90000, c15Pairs, ts), nil, cmtproto.BlockIDFlagCommit)
		case shUnknownFlagExtNoSig:
			entry(y.ext(s, 90000, c15Pairs, ts), nil, cmtproto.BlockIDFlagUnknown)
		case shSuffixedAddresses:
			// the validator's own signed vote counts once; the copies under 21-byte addresses are votes of
			// validators nobody recorded
			e := y.ext(s, 50000, c15Pairs, ts)
			sig := y.sign(v.key, c15ChainID, signH, c15Round, e)
			entry(e, sig, cmtproto.BlockIDFlagCommit)
			for _, sfx := range []byte{1, 2} {
				eci.Votes = append(eci.Votes, cometabci.ExtendedVoteInfo{Validator: cometabci.Validator{Address: append(append([]byte{}, addr...), sfx), Power: claimed}, VoteExtension: e, ExtensionSignature: sig, BlockIdFlag: cmtproto.BlockIDFlagCommit})
			}
			mark(c15Pairs)
			priced(c15Pairs, 50000)
		case shSignedGarbage:
			e := []byte("not a compressed vote extension")
			entry(e, y.sign(v.key, c15ChainID, signH, c15Round, e), cmtproto.BlockIDFlagCommit)
		}
	}
	bz, err := c15EcCodec.Encode(eci)
	if err != nil {
		panic(err)
	}
	return bz, good, vals
}

func ed25519PubAddr(keyName string) []byte {
	var pk *ed25519.PubKey = world.EdKey(keyName).PubKey().(*ed25519.PubKey)
	return pk.Address()
}

type c15Price struct {
	has   bool
	price string
	ts    time.Time
}

func (s *c15State) prices(ctx sdk.Context) map[string]c15Price {
	out := map[string]c15Price{}
	for _, p := range c15Pairs {
		cp, _ := connecttypes.CurrencyPairFromString(p)
		qp, err := s.w.OK.GetPriceForCurrencyPair(ctx, cp)
		if err != nil {
			out[p] = c15Price{}
			continue
		}
		out[p] = c15Price{true, qp.Price.String(), qp.BlockTimestamp}
	}
	return out
}

// update executes one MsgUpdateOracle on ctx (a branch) and judges it. Returns whether it was accepted.
func (y *c15Sys) update(s *c15State, ctx sdk.Context, sender string, votes []c15Vote, height uint64, ts int64, label string) (bool, bool, *engine.Violation) {
	data, good, vals := y.buildV(s, votes, height, ts)
	before := s.prices(ctx)
	d0 := s.w.Digest(ctx)
	res := s.w.Deliver(ctx, opchildtypes.NewMsgUpdateOracle(world.Addr(sender).String(), height, data))
	if res.Panicked {
		return false, false, tagged(viol("handler-panic", "%s: UpdateOracle panicked: %s", label, res.PanicVal), "label", label)
	}
	after := s.prices(ctx)
	if !res.OK() {
		if s.w.Digest(ctx) != d0 {
			return false, false, viol("rejected-update-has-no-effect", "%s: rejected (%v) but state changed", label, res.Err)
		}
		y.rejected.Add(1)
		r := res.Err.Error()
		if i := strings.Index(r, ";"); i > 0 {
			r = r[:i]
		}
		if len(r) > 60 {
			r = r[:60]
		}
		cnt, _ := y.reasons.LoadOrStore(r, new(atomic.Int64))
		cnt.(*atomic.Int64).Add(1)
		return false, false, nil
	}
	set := c15Sets[s.set]
	anyChanged := false
	for _, p := range c15Pairs {
		b, a := before[p], after[p]
		if b == a {
			continue
		}
		anyChanged = true
		if sender != "executor" {
			return true, true, viol("price-change-needs-executor", "%s: %s changed by %s", label, p, sender)
		}
		if !s.flagOn {
			return true, true, viol("price-change-needs-oracle-enabled", "%s: %s changed while the bridge has the oracle disabled", label, p)
		}
		if int64(height) < s.hostH {
			return true, true, viol("update-height-not-older-than-validator-set", "%s: %s changed by an update at height %d, validator set recorded at %d", label, p, height, s.hostH)
		}
		if s.set == "" {
			return true, true, tagged(viol("price-change-needs-two-thirds-signed-quorum", "%s: %s changed (%v -> %v) although no L1 validator set is recorded", label, p, b, a), "pair", p)
		}
		pw := int64(0)
		for i, k := range set.vals {
			if good[p][k] {
				pw += set.powers[i]
			}
		}
		if 3*pw < 2*set.total() {
			return true, true, tagged(viol("price-change-needs-two-thirds-signed-quorum", "%s: %s changed (%v -> %v) although distinct known validators with a valid signed price hold only %d of %d power", label, p, b, a, pw, set.total()), "pair", p)
		}
		if 3*pw == 2*set.total() || 3*(pw-1) < 2*set.total() {
			y.atLine.Add(1)
		}
		if a.has && a.price != b.price && !vals[p][a.price] {
			return true, true, tagged(viol("only-validly-signed-prices-count", "%s: %s is now %s, a value no validator supplied under a valid signature (supplied: %v)", label, p, a.price, vals[p]), "pair", p)
		}
		if b.has && !a.ts.After(b.ts) {
			return true, true, tagged(viol("timestamp-strictly-increases", "%s: %s timestamp %s -> %s", label, p, b.ts, a.ts), "pair", p)
		}
	}
	if anyChanged {
		y.changed.Add(1)
	}
	return true, anyChanged, nil
}

type c15Update struct {
	ts    int64
	pairs string // all | noBTC
}
type c15Refresh struct {
	dh     int64
	client string
	set    string
}
type c15Flag struct{ on bool }
type c15SetClient struct{ client string }

var c15Ts = []int64{1_000_000_000, 2_000_000_000, 3_000_000_000}

func (y *c15Sys) Letters(s *c15State) []engine.Letter {
	var ls []engine.Letter
	for i, t := range c15Ts {
		ls = append(ls, engine.Letter{Name: fmt.Sprintf("Update(ts=t%d,all-sign)", i+1), Data: c15Update{t, "all"}})
		ls = append(ls, engine.Letter{Name: fmt.Sprintf("Update(ts=t%d,all-sign-noBTC)", i+1), Data: c15Update{t, "noBTC"}})
	}
	for _, dh := range []int64{-1, 0, 5} {
		for _, cl := range []string{c15Client, "07-tendermint-9", "07-tendermint-10", "07-tendermint-", "07-tendermint-00", ""} { // incl. a proper prefix and an extension of the configured id
			for _, set := range []string{y.initial, "V'"} {
				ls = append(ls, engine.Letter{Name: fmt.Sprintf("ValsetRefresh(height%+d,client=%q,set=%s)", dh, cl, set), Data: c15Refresh{dh, cl, set}})
			}
		}
	}
	ls = append(ls, engine.Letter{Name: "SetOracleFlag(off)", Data: c15Flag{false}}, engine.Letter{Name: "SetOracleFlag(on)", Data: c15Flag{true}})
	if s.client == "" {
		ls = append(ls, engine.Letter{Name: "SetL1ClientId(" + c15Client + ")", Data: c15SetClient{c15Client}})
	}
	return ls
}

func (y *c15Sys) Step(s *c15State, l engine.Letter) (*c15State, string, *engine.Violation) {
	ctx, _ := s.ctx.CacheContext()
	c := &c15State{ctx: ctx, w: s.w, set: s.set, hostH: s.hostH, depth: s.depth + 1, flagOn: s.flagOn, client: s.client}
	switch d := l.Data.(type) {
	case c15SetClient:
		info := c12Info(d.client)
		info.BridgeConfig.OracleEnabled = s.flagOn
		if r := s.w.Deliver(ctx, opchildtypes.NewMsgSetBridgeInfo(world.Addr("executor").String(), info)); !r.OK() {
			return c, "rejected", viol("harness-expectation", "SetBridgeInfo failed: %v", r.Err)
		}
		c.client = d.client
		return c, "ok", nil
	case c15Flag:
		info := c12Info(s.client)
		info.BridgeConfig.OracleEnabled = d.on
		if r := s.w.Deliver(ctx, opchildtypes.NewMsgSetBridgeInfo(world.Addr("executor").String(), info)); !r.OK() {
			return c, "rejected", viol("harness-expectation", "SetBridgeInfo failed: %v", r.Err)
		}
		c.flagOn = d.on
		return c, "ok", nil
	case c15Update:
		set := c15Sets[y.voters(s)]
		shape := shPriceP
		if d.pairs == "noBTC" {
			shape = shNoBTC
		}
		var votes []c15Vote
		for _, k := range set.vals {
			votes = append(votes, c15Vote{k, shape})
		}
		ok, changed, v := y.update(s, ctx, "executor", votes, uint64(s.hostH+1), d.ts, l.Name)
		if v != nil {
			return c, "x", v
		}
		if !ok {
			return c, "rejected", nil
		}
		if changed {
			return c, "accepted-changed", nil
		}
		return c, "accepted-unchanged", nil
	case c15Refresh:
		before := s.w.Digest(ctx)
		h := s.hostH + d.dh
		err := s.w.K.UpdateHostValidatorSet(ctx, d.client, h, c15Sets[d.set].proto())
		if err != nil {
			return c, "error", viol("valset-refresh-does-not-fail", "UpdateHostValidatorSet returned %v", err)
		}
		if s.w.Digest(ctx) != before {
			if d.client != s.client || h <= s.hostH {
				return c, "replaced", tagged(viol("valset-replaced-only-by-higher-height-from-configured-client", "validator set changed by a refresh from client %q at height %d (recorded %d, configured client %q)", d.client, h, s.hostH, s.client), "client", d.client)
			}
			c.set = d.set
			c.hostH = h
			return c, "replaced", nil
		}
		return c, "ignored", nil
	}
	panic("unknown letter")
}

func (y *c15Sys) Check(s *c15State) *engine.Violation {
	// host height recorded = model
	if h, err := s.w.K.HostValidatorStore.GetLastHeight(s.ctx); (err != nil && s.set != "") || h != s.hostH {
		return viol("valset-replaced-only-by-higher-height-from-configured-client", "recorded validator-set height %d, model %d (err=%v)", h, s.hostH, err)
	}
	// the recorded set is exactly the set of the last accepted refresh (keys and powers), nothing more
	if vals, err := s.w.K.HostValidatorStore.GetAllValidators(s.ctx); err != nil {
		return viol("valset-replaced-only-by-higher-height-from-configured-client", "cannot read the recorded validator set: %v", err)
	} else {
		got := map[string]int64{}
		for _, v := range vals {
			ca, _ := v.GetConsAddr()
			got[hex.EncodeToString(ca)] = v.GetConsensusPower(sdk.DefaultPowerReduction)
		}
		want := map[string]int64{}
		if s.set != "" {
			rs := c15Sets[s.set]
			for i, k := range rs.vals {
				want[hex.EncodeToString(ed25519PubAddr(k))] = rs.powers[i]
			}
		}
		if fmt.Sprint(got) != fmt.Sprint(want) {
			return viol("valset-replaced-only-by-higher-height-from-configured-client", "the recorded L1 validator set holds %d validators %v, the last accepted refresh (%s) has %d %v: a refresh must replace the set, not merge into it", len(got), got, s.set, len(want), want)
		}
	}
	// validators of the set that is NOT recorded (recorded before, or never) sign everything: nothing may change
	{
		other := "V'"
		if s.set == "V'" {
			other = y.initial
		}
		var votes []c15Vote
		for _, k := range c15Sets[other].vals {
			votes = append(votes, c15Vote{k, shPriceQ})
		}
		nn := int64(0)
		for _, p := range s.prices(s.ctx) {
			if p.has && p.ts.UnixNano() > nn {
				nn = p.ts.UnixNano()
			}
		}
		y.probes.Add(1)
		bctx, _ := s.ctx.CacheContext()
		if _, _, v := y.update(s, bctx, "executor", votes, uint64(s.hostH+1), nn+1_000_000_000, fmt.Sprintf("set=%s votes=all of %s sign q", s.set, other)); v != nil {
			return tagged(v, "votes", "other-set")
		}
	}
	full := s.depth <= y.probeDepth // full shape matrix only near the root; the thinned family everywhere
	// Mode P: every combination of vote shapes
	set := c15Sets[y.voters(s)]
	n := len(set.vals)
	idx := make([]int, n)
	// a timestamp above everything stored so far and one equal to the newest stored
	newest := int64(0)
	for _, p := range s.prices(s.ctx) {
		if p.has && p.ts.UnixNano() > newest {
			newest = p.ts.UnixNano()
		}
	}
	for {
		for unk := 0; unk < 2; unk++ {
			if !full {
				skip := false
				for _, i := range idx {
					if i != shPriceP && i != shPriceQ {
						skip = true
					}
				}
				if skip {
					continue
				}
			}
			var votes []c15Vote
			var names []string
			for i, k := range set.vals {
				votes = append(votes, c15Vote{k, idx[i]})
				names = append(names, c15ShapeNames[idx[i]])
			}
			if unk == 1 {
				votes = append(votes, c15Vote{"unknown-validator", shPriceQ})
				names = append(names, "+unknown(q)")
			}
			type cx struct {
				sender string
				height uint64
				ts     int64
				tag    string
			}
			ctxs := []cx{{"executor", uint64(s.hostH + 1), newest + 1_000_000_000, "default"}}
			// context variations on a thinned family (they are independent gates)
			allP := true
			for _, i := range idx {
				if i != shPriceP && i != shPriceQ {
					allP = false
				}
			}
			if allP {
				ctxs = append(ctxs,
					cx{"stranger", uint64(s.hostH + 1), newest + 1_000_000_000, "stranger"},
					cx{"executor", uint64(s.hostH), newest + 1_000_000_000, "height=recorded"},
					cx{"executor", uint64(s.hostH - 1), newest + 1_000_000_000, "height=recorded-1"},
					cx{"executor", uint64(s.hostH + 1), newest, "timestamp=stored"},
					cx{"executor", uint64(s.hostH + 1), newest - 1, "timestamp=stored-1"},
				)
			}
			for _, c := range ctxs {
				if c.ts <= 0 {
					continue
				}
				y.probes.Add(1)
				bctx, _ := s.ctx.CacheContext()
				label := fmt.Sprintf("set=%s votes=%v ctx=%s", s.set, names, c.tag)
				if _, _, v := y.update(s, bctx, c.sender, votes, c.height, c.ts, label); v != nil {
					return tagged(v, "votes", strings.Join(names, ","))
				}
			}
		}
		// next combination
		k := 0
		for k < n {
			idx[k]++
			if idx[k] < numShapes {
				break
			}
			idx[k] = 0
			k++
		}
		if k == n {
			break
		}
	}
	return nil
}

func init() {
	register(&Check{ID: "C15", Level: "model_checking",
		Run: func(rc *engine.RunCtx) *engine.Result {
			res := engine.NewResult()
			sets := []string{"V(1,1,1)", "V(3,1,1)", "V(34,33,33)", "V(1,1,1)" + c15Unset}
			if rc.Thorough() {
				sets = append(sets, "V(2,1,1,1)")
			}
			for i, name := range sets {
				pd := 0
				if rc.Thorough() && name != "V(2,1,1,1)" {
					pd = 1
				}
				y := c15SysFor(name, pd)
				o := opts(rc, pick(rc, 3, 4))
				o.Deadline = time.Now().Add(time.Until(rc.Deadline()) / time.Duration(len(sets)-i))
				rep, err := engine.Explore[*c15State](y, o)
				if err != nil {
					res.HarnessErr = err
					return res
				}
				res.Absorb(name, rep)
				reasons := map[string]int64{}
				y.reasons.Range(func(k, v any) bool { reasons[k.(string)] = v.(*atomic.Int64).Load(); return true })
				res.Coverage["votes/"+name] = map[string]any{"update_executions": y.probes.Load(), "updates_that_changed_a_price": y.changed.Load(), "changes_at_the_quorum_line": y.atLine.Load(), "rejected": y.rejected.Load(), "reject_reasons": reasons}
				res.Require(y.changed.Load() > 0 && y.rejected.Load() > 0, "%s: vote matrix is one-sided", name)
				res.Require(res.OutcomeCount(name, "Update/accepted-changed") > 0 && res.OutcomeCount(name, "Update/rejected") > 0 && res.OutcomeCount(name, "ValsetRefresh/replaced") > 0 && res.OutcomeCount(name, "ValsetRefresh/ignored") > 0, "%s: history outcomes missing", name)
			}
			res.Coverage["alphabet"] = "histories: Update(timestamp∈{t1<t2<t3}, all validators sign all pairs | all but BTC), ValsetRefresh(height∈{recorded-1, recorded, recorded+5}, client∈{configured, other, other of another length, \"\"}, set∈{V,V'}), SetOracleFlag(on|off), and — in the configuration whose bridge info starts without an L1 client id — SetL1ClientId; probe family (root state, and every depth-1 state in the thorough tier): all 19^n combinations of per-validator vote shapes {absent, signed p, signed q, no BTC price, no timestamp, bad signature, other chain id, other height, other round, listed twice, non-commit empty, non-commit with extension and signature, non-commit with unsigned extension, non-commit with signature only, commit flag with unsigned extension, correctly signed undecodable extension} × unknown validator present/absent, plus sender / update-height / timestamp variations"
			res.Coverage["oracle"] = "a pair's stored price or timestamp changed ⇒ sender is a bridge executor ∧ oracle flag on ∧ update height ≥ recorded validator-set height ∧ the distinct known validators that (by the harness's own signing bookkeeping) supplied a price for that pair under a correct commit-flag signature over (L1 chain id, height-1, round, extension) hold ≥ 2/3 of the recorded power ∧ the new timestamp is strictly greater; rejected ⇒ digest unchanged; validator set changed ⇒ refresh from the configured client at a strictly higher height"
			res.Assumptions = []string{"real connect x/oracle keeper, codecs and vote aggregator; validator sets (1,1,1), (3,1,1) and, thorough, (2,1,1,1)"}
			return res
		},
		Replay: func(kind string, path []string) ([]string, *engine.Violation, error) {
			if _, ok := c15Sets[strings.TrimSuffix(kind, c15Unset)]; !ok {
				return nil, nil, fmt.Errorf("unknown replay kind %q", kind)
			}
			return engine.Replay[*c15State](c15SysFor(kind, 1), path)
		},
	})
}
