package props

import (
	"encoding/hex"
	"encoding/json"
	"fmt"
	"os"
	"strings"
	"sync"
	"sync/atomic"
	"time"

	sdk "github.com/cosmos/cosmos-sdk/types"
	"github.com/cosmos/gogoproto/proto"

	opchildtypes "github.com/initia-labs/OPinit/x/opchild/types"
	ophosttypes "github.com/initia-labs/OPinit/x/ophost/types"

	"verifmc/engine"
	"verifmc/world"
)

// C18 — state transitions are deterministic.
// Every transition of every explored state is executed (a) twice on the same world, (b) on a second,
// independently constructed world loaded with the parent's raw store content, (c) under every
// permutation at every instrumented map-range site it reaches. All executions must agree byte-wise.

// c18MapBegin is bound by the overlay build (c18_overlay.go); it installs a map-order session for
// the calling goroutine and returns the function that ends it and yields the sites reached.
var c18MapBegin func(choose func(site string, n int) []int) func() [][2]any

type c18Obs struct {
	err    string
	resp   string
	events string
	gas    string
	extra  string
	dump   string
}

func (o c18Obs) diff(p c18Obs) string {
	switch {
	case o.err != p.err:
		return fmt.Sprintf("error %q vs %q", o.err, p.err)
	case o.resp != p.resp:
		return fmt.Sprintf("response %q vs %q", o.resp, p.resp)
	case o.events != p.events:
		return fmt.Sprintf("events %.300q vs %.300q", o.events, p.events)
	case o.gas != p.gas:
		return fmt.Sprintf("gas used %s vs %s (tx results are consensus-critical; under a gas limit between the two the outcome flips)", o.gas, p.gas)
	case o.extra != p.extra:
		return fmt.Sprintf("validator updates %q vs %q", o.extra, p.extra)
	case o.dump != p.dump:
		return "module state differs byte-wise"
	}
	return ""
}

func dumpHash(ctx sdk.Context, w interface {
	Digest(sdk.Context, ...[]byte) [32]byte
}) string {
	d := w.Digest(ctx)
	return hex.EncodeToString(d[:])
}

func obsOf(r world.DeliverResult) c18Obs {
	o := c18Obs{events: showEvents(r.Events)}
	if r.Err != nil {
		o.err = r.Err.Error() // full text incl. codespace/code wrapping
		if r.Panicked {
			o.err = "panic: " + strings.SplitN(r.PanicVal, "\n", 2)[0]
		}
	}
	if r.Resp != nil {
		bz, _ := proto.Marshal(r.Resp)
		o.resp = hex.EncodeToString(bz)
	}
	o.gas = fmt.Sprint(r.GasUsed)
	return o
}

// perms returns all permutations of n (n ≤ 4), else identity reversed and rotations.
func c18Perms(n int) [][]int {
	id := make([]int, n)
	for i := range id {
		id[i] = i
	}
	if n <= 1 {
		return nil
	}
	var out [][]int
	if n <= 4 {
		var rec func(cur []int, used []bool)
		rec = func(cur []int, used []bool) {
			if len(cur) == n {
				out = append(out, append([]int{}, cur...))
				return
			}
			for i := 0; i < n; i++ {
				if !used[i] {
					used[i] = true
					rec(append(cur, i), used)
					used[i] = false
				}
			}
		}
		rec(nil, make([]bool, n))
		return out[1:] // drop identity
	}
	rev := make([]int, n)
	for i := range rev {
		rev[i] = n - 1 - i
	}
	out = append(out, rev)
	for r := 1; r < n; r++ {
		p := make([]int, n)
		for i := range p {
			p[i] = (i + r) % n
		}
		out = append(out, p)
	}
	return out
}

type c18Stats struct {
	execs, permRuns, sitesHit atomic.Int64
	gasLimits, gasOOG         atomic.Int64 // gas-limit sweep: limits tried, of which run A ended out of gas
	mu                        sync.Mutex
	sites                     map[string]int
}

// c18Compare runs `exec` in all the required ways and returns the first disagreement.
// exec(kind) must execute the transition on a fresh branch (kind: "A" the one that is kept,
// "again" same world, "twin" second world) and return its observation.
func c18Compare(st *c18Stats, name string, exec func(kind string) c18Obs) *engine.Violation {
	if c18MapBegin == nil {
		return viol("harness-not-in-overlay-build", "C18 must run in the overlay build")
	}
	end := c18MapBegin(nil)
	a := exec("A")
	sites := end()
	st.execs.Add(1)
	// "repeat": the same node runs the transition once more right after a run whose branch was thrown
	// away (a simulation, an optimistic execution that was aborted): whatever the first run left in
	// process memory is still there
	end = c18MapBegin(nil)
	b := exec("repeat")
	end()
	st.execs.Add(1)
	if d := a.diff(b); d != "" {
		return tagged(viol("same-node-repeats-itself", "%s executed twice from the same state: %s", name, d), "how", "again")
	}
	end = c18MapBegin(nil)
	c := exec("twin")
	end()
	st.execs.Add(1)
	if d := a.diff(c); d != "" {
		return tagged(viol("independent-node-agrees", "%s on an independently constructed node with identical state: %s", name, d), "how", "twin")
	}
	// "cold": a node that was restarted on this very state (newly constructed keepers, nothing in
	// process memory) against the exploring node, whose keepers have by now served every transition,
	// failed transaction and probe of the search so far
	end = c18MapBegin(nil)
	e := exec("cold")
	end()
	st.execs.Add(1)
	if d := a.diff(e); d != "" {
		return tagged(viol("restarted-node-agrees", "%s on a node restarted on the same state (newly constructed keepers): %s", name, d), "how", "cold")
	}
	for si, s := range sites {
		n := s[1].(int)
		st.sitesHit.Add(1)
		st.mu.Lock()
		st.sites[fmt.Sprintf("%s (n=%d)", s[0], n)]++
		st.mu.Unlock()
		for _, p := range c18Perms(n) {
			p := p
			idx := 0
			end = c18MapBegin(func(site string, k int) []int {
				defer func() { idx++ }()
				if idx == si && k == n {
					return p
				}
				return nil
			})
			o := exec("again")
			log := end()
			st.permRuns.Add(1)
			if len(log) <= si || log[si][0] != s[0] {
				return viol("harness-replay-divergence", "%s: map site %d was %v, recorded %v", name, si, log, s)
			}
			if d := a.diff(o); d != "" {
				return tagged(viol("result-independent-of-map-iteration-order", "%s with iteration order %v at %s: %s", name, p, s[0], d), "site", fmt.Sprint(s[0]))
			}
		}
	}
	return nil
}

// ------------------------------------------------------------------------------------------ L1

type c18L1Sys struct {
	inner *c16L1Sys
	st    *c18Stats
	sweep int      // as c18L2Sys.sweep
	swept sync.Map // as c18L2Sys.swept
	twins map[*world.L1]*world.L1
	mu    sync.Mutex
}

func (y *c18L1Sys) Root() *c16L1State             { return y.inner.Root() }
func (y *c18L1Sys) Digest(s *c16L1State) [32]byte { return y.inner.Digest(s) }

type c18Export struct{}

func (y *c18L1Sys) Letters(s *c16L1State) []engine.Letter {
	ls := append(y.inner.Letters(s), engine.Letter{Name: "ExportGenesis", Data: c18Export{}})
	// messages that are wrong in two places at once: which of the two errors is reported must not depend
	// on anything but the message
	two := []c16L1Op{
		{"CreateBridge(proposer and challenger both malformed)", func(s *c16L1State) sdk.Msg {
			c := world.BridgeConfig("proposer", "challenger", 10*time.Second)
			c.Proposer, c.Challenger = "not-a-proposer", "not-a-challenger"
			return ophosttypes.NewMsgCreateBridge(world.Addr("creator").String(), c)
		}},
		{"CreateBridge(challenger malformed, period zero, submitter empty)", func(s *c16L1State) sdk.Msg {
			c := world.BridgeConfig("proposer", "challenger", 0)
			c.Challenger, c.BatchInfo.Submitter = "x", ""
			return ophosttypes.NewMsgCreateBridge(world.Addr("creator").String(), c)
		}},
		{"Deposit(bridge 0, empty recipient)", func(s *c16L1State) sdk.Msg {
			return ophosttypes.NewMsgInitiateTokenDeposit(world.Addr("alice").String(), 0, "", world.Coin("uxx", 1), nil)
		}},
		{"UpdateBatchInfo(unknown bridge, undeclared chain type, empty submitter)", func(s *c16L1State) sdk.Msg {
			return ophosttypes.NewMsgUpdateBatchInfo(s.w.Authority, 99, ophosttypes.BatchInfo{Submitter: "", ChainType: 9})
		}},
	}
	for _, op := range two {
		ls = append(ls, engine.Letter{Name: op.name, Data: op})
	}
	return ls
}
func (y *c18L1Sys) Check(s *c16L1State) *engine.Violation { return nil }

func (y *c18L1Sys) twin(w *world.L1) *world.L1 {
	y.mu.Lock()
	defer y.mu.Unlock()
	if t, ok := y.twins[w]; ok {
		return t
	}
	t := y.inner.Root().w // a second, independently constructed world
	y.twins[w] = t
	return t
}

func (y *c18L1Sys) Step(s *c16L1State, l engine.Letter) (*c16L1State, string, *engine.Violation) {
	if l.Data == nil {
		c, o, v := y.inner.Step(s, l)
		if c != nil {
			c.depth = s.depth + 1
		}
		return c, o, v
	}
	tw := y.twin(s.w)
	if _, isExport := l.Data.(c18Export); isExport {
		v := c18Compare(y.st, l.Name, func(kind string) c18Obs {
			w, ctx := s.w, s.ctx
			if kind == "twin" {
				tctx, _ := tw.Ctx.CacheContext()
				tctx = tctx.WithBlockHeight(s.ctx.BlockHeight()).WithBlockTime(s.ctx.BlockTime())
				world.CopyState(s.ctx, s.w.StoreKeys, tctx, tw.StoreKeys)
				w, ctx = tw, tctx
			}
			if kind == "cold" {
				w = s.w.Respawn()
			}
			var o c18Obs
			func() {
				defer func() {
					if r := recover(); r != nil {
						o.err = fmt.Sprintf("panic: %v", r)
					}
				}()
				bz, err := w.Enc.Marshaler.MarshalJSON(w.HK.ExportGenesis(ctx))
				if err != nil {
					o.err = err.Error()
				}
				o.resp = string(bz)
			}()
			return o
		})
		c := &c16L1State{ctx: s.ctx, w: s.w, nbr: s.nbr, depth: s.depth + 1}
		if v != nil {
			return c, "x", v
		}
		return c, "exported", nil
	}
	op := l.Data.(c16L1Op)
	var kept sdk.Context
	var keptOK bool
	run := func(kind string, limit int64) (c18Obs, sdk.Context, bool) {
		deliver := func(w *world.L1, ctx sdk.Context, m sdk.Msg) world.DeliverResult {
			if limit >= 0 {
				return w.DeliverGas(ctx, m, uint64(limit))
			}
			return w.Deliver(ctx, m)
		}
		switch kind {
		case "twin":
			tctx, _ := tw.Ctx.CacheContext()
			tctx = tctx.WithBlockHeight(s.ctx.BlockHeight()).WithBlockTime(s.ctx.BlockTime())
			world.CopyState(s.ctx, s.w.StoreKeys, tctx, tw.StoreKeys)
			ts := &c16L1State{ctx: tctx, w: tw}
			r := deliver(tw, tctx, op.msg(ts))
			o := obsOf(r)
			o.dump = dumpHash(tctx, tw)
			return o, tctx, r.OK()
		case "cold":
			cw := s.w.Respawn()
			ctx, _ := s.ctx.CacheContext()
			r := deliver(cw, ctx, op.msg(&c16L1State{ctx: ctx, w: cw, nbr: s.nbr}))
			o := obsOf(r)
			o.dump = dumpHash(ctx, cw)
			return o, ctx, r.OK()
		default:
			ctx, _ := s.ctx.CacheContext()
			r := deliver(s.w, ctx, op.msg(s))
			o := obsOf(r)
			o.dump = dumpHash(ctx, s.w)
			return o, ctx, r.OK()
		}
	}
	v := c18Compare(y.st, l.Name, func(kind string) c18Obs {
		o, ctx, ok := run(kind, -1)
		if kind == "A" {
			kept, keptOK = ctx, ok
		}
		return o
	})
	c := &c16L1State{ctx: kept, w: s.w, nbr: s.nbr, depth: s.depth + 1}
	if v != nil {
		return c, "x", v
	}
	if s.depth <= y.sweep {
		d := y.Digest(s)
		key := string(d[:]) + l.Name
		sv, done := y.swept.Load(key)
		if !done {
			end := c18MapBegin(nil)
			bctx, _ := s.ctx.CacheContext()
			marks := s.w.GasTrace(bctx, op.msg(s))
			end()
			sv = c18Sweep(y.st, l.Name, marks, run)
			y.swept.Store(key, sv)
		}
		if v := sv.(*engine.Violation); v != nil {
			return c, "x", v
		}
	}
	if keptOK {
		return c, "accepted", nil
	}
	return c, "rejected", nil
}

// c18Sweep re-runs a message under every gas limit derived from the marks of its unlimited execution.
func c18Sweep(st *c18Stats, name string, marks []uint64, run func(kind string, limit int64) (c18Obs, sdk.Context, bool)) *engine.Violation {
	for _, lim := range c18Limits(marks) {
		lim := lim
		first := true
		v := c18Compare(st, fmt.Sprintf("%s under a gas limit of %d", name, lim), func(kind string) c18Obs {
			o, _, ok := run(kind, int64(lim))
			if kind == "A" && first {
				first = false
				st.gasLimits.Add(1)
				if !ok && strings.HasPrefix(o.err, "panic: ") {
					st.gasOOG.Add(1)
				}
			}
			return o
		})
		if v != nil {
			v.Tags["under-gas-limit"] = "true"
			return v
		}
	}
	return (*engine.Violation)(nil)
}

// ------------------------------------------------------------------------------------------ L2

type c18L2State struct {
	ctx   sdk.Context
	w     *world.L2
	plans map[uint64]opchildtypes.ExecutorChangePlan
	depth int
}

type c18L2Sys struct {
	st    *c18Stats
	votes *c15Sys
	sweep int      // message letters of states at depth ≤ sweep are also run under every gas limit (-1: never)
	swept sync.Map // digest+letter -> *engine.Violation: the explorer re-executes shallow steps many times
	twins map[*world.L2]*world.L2
	mu    sync.Mutex
}

func (y *c18L2Sys) newWorld() *world.L2 {
	s := y.votes.Root() // oracle pairs, bridge info, host validators
	w := s.w
	for _, n := range []string{"alice", "bob", "o1", "o2", "o3", "o4", "o5", "e2"} {
		w.CreateAccount(w.Ctx, n, nil)
	}
	return w
}

func (y *c18L2Sys) Root() *c18L2State {
	w := y.newWorld()
	return &c18L2State{ctx: w.Ctx, w: w, plans: map[uint64]opchildtypes.ExecutorChangePlan{}}
}

func (y *c18L2Sys) Digest(s *c18L2State) [32]byte {
	return s.w.Digest(s.ctx, world.PlansBytes(s.plans))
}
func (y *c18L2Sys) Check(s *c18L2State) *engine.Violation { return nil }

func (y *c18L2Sys) twin(w *world.L2) *world.L2 {
	y.mu.Lock()
	defer y.mu.Unlock()
	if t, ok := y.twins[w]; ok {
		return t
	}
	t := y.newWorld()
	y.twins[w] = t
	return t
}

type c18L2Op struct {
	name string
	msg  func(w *world.L2, ctx sdk.Context) sdk.Msg // nil for block / plan letters
	kind string
}

func (y *c18L2Sys) ops() []c18L2Op {
	ex := world.Addr("executor").String()
	alice := world.Addr("alice").String()
	dep := func(to string) func(w *world.L2, ctx sdk.Context) sdk.Msg {
		return func(w *world.L2, ctx sdk.Context) sdk.Msg {
			n, _ := w.K.GetNextL1Sequence(ctx)
			return opchildtypes.NewMsgFinalizeTokenDeposit(ex, "l1sender", to, sdk.NewInt64Coin(c06Denom, 3), n, 4, "uxx", nil)
		}
	}
	add := func(o, k string) func(w *world.L2, ctx sdk.Context) sdk.Msg {
		return func(w *world.L2, ctx sdk.Context) sdk.Msg {
			m, _ := opchildtypes.NewMsgAddValidator(o, w.Authority, valOf(o), world.EdKey(k).PubKey())
			return m
		}
	}
	rem := func(o string) func(w *world.L2, ctx sdk.Context) sdk.Msg {
		return func(w *world.L2, ctx sdk.Context) sdk.Msg {
			m, _ := opchildtypes.NewMsgRemoveValidator(w.Authority, valOf(o))
			return m
		}
	}
	return []c18L2Op{
		{"Deposit(credited)", dep(alice), "msg"},
		{"Deposit(refunded)", dep("garbage"), "msg"},
		{"Withdraw(alice,1)", func(w *world.L2, ctx sdk.Context) sdk.Msg {
			return opchildtypes.NewMsgInitiateTokenWithdrawal(alice, "l1addr", sdk.NewInt64Coin(c06Denom, 1))
		}, "msg"},
		{"AddValidator(o4,k4)", add("o4", "k4"), "msg"},
		{"AddValidator(o5,k5)", add("o5", "k5"), "msg"},
		{"AddValidator(o1,k1)", add("o1", "k1"), "msg"},
		{"AddValidator(o2,k2)", add("o2", "k2"), "msg"},
		{"AddValidator(o3,k3)", add("o3", "k3"), "msg"},
		{"RemoveValidator(o1)", rem("o1"), "msg"},
		{"RemoveValidator(o2)", rem("o2"), "msg"},
		{"RemoveValidator(o3)", rem("o3"), "msg"},
		{"UpdateParams", func(w *world.L2, ctx sdk.Context) sdk.Msg {
			p, _ := w.K.GetParams(ctx)
			p.HookMaxGas++
			return opchildtypes.NewMsgUpdateParams(w.Authority, &p)
		}, "msg"},
		{"UpdateParams(executors=[e1,e2,e3,e1])", func(w *world.L2, ctx sdk.Context) sdk.Msg {
			p, _ := w.K.GetParams(ctx)
			p.BridgeExecutors = []string{world.Addr("e1").String(), world.Addr("e2").String(), world.Addr("e3").String(), world.Addr("e1").String()}
			return opchildtypes.NewMsgUpdateParams(w.Authority, &p)
		}, "msg"},
		{"UpdateParams(fee whitelist=[e1,e2,e3,alice])", func(w *world.L2, ctx sdk.Context) sdk.Msg {
			p, _ := w.K.GetParams(ctx)
			p.FeeWhitelist = []string{world.Addr("e1").String(), world.Addr("e2").String(), world.Addr("e3").String(), world.Addr("alice").String()}
			return opchildtypes.NewMsgUpdateParams(w.Authority, &p)
		}, "msg"},
		{"UpdateOracle(3 voters)", nil, "oracle"},
		// every pair priced by everyone, under the newest stored timestamp: pairs that have no price yet
		// are writable, the others are stale — the update is rejected part-way through its write loop
		{"UpdateOracle(3 voters, all pairs, stale timestamp)", nil, "oracle-stale"},
		// two of the voters also price a pair this chain does not track (an L2 follows a subset of L1's pairs)
		{"UpdateOracle(3 voters, two also price an untracked pair)", nil, "oracle-untracked"},
		// …and votes that price the untracked pair instead of one of the tracked ones (no more ids than the chain tracks)
		{"UpdateOracle(3 voters, two price an untracked pair in place of a tracked one)", nil, "oracle-untracked-few"},
		// the exported genesis is a response like any other (a restarted network is built from it)
		{"ExportGenesis", nil, "export"},
		{"RegisterPlan(h,o3,k3)", nil, "plan"},
		{"NextBlock", nil, "block"},
	}
}

func (y *c18L2Sys) Letters(s *c18L2State) []engine.Letter {
	var ls []engine.Letter
	for _, op := range y.ops() {
		ls = append(ls, engine.Letter{Name: op.name, Data: op})
	}
	return ls
}

// message builds the transaction message of a message letter against (w, ctx).
func (y *c18L2Sys) message(op c18L2Op, w *world.L2, ctx sdk.Context) sdk.Msg {
	if op.kind == "msg" {
		return op.msg(w, ctx)
	}
	cs := &c15State{ctx: ctx, w: w, set: y.votes.initial, hostH: 10, flagOn: true}
	newest := int64(0)
	for _, p := range cs.prices(ctx) {
		if p.has && p.ts.UnixNano() > newest {
			newest = p.ts.UnixNano()
		}
	}
	var votes []c15Vote
	ts := newest + 1_000_000_000
	switch op.kind {
	case "oracle":
		votes = []c15Vote{{"hv1", shPriceP}, {"hv2", shPriceQ}, {"hv3", shNoBTC}}
	case "oracle-untracked":
		votes = []c15Vote{{"hv1", shWithUntracked}, {"hv2", shWithUntracked}, {"hv3", shPriceP}}
	case "oracle-untracked-few":
		votes = []c15Vote{{"hv1", shUntrackedFew}, {"hv2", shUntrackedFew}, {"hv3", shPriceP}}
	case "oracle-stale":
		votes = []c15Vote{{"hv1", shPriceP}, {"hv2", shPriceP}, {"hv3", shPriceP}}
		if newest < 1 {
			newest = 1
		}
		ts = newest
	}
	data, _ := y.votes.build(cs, votes, 11, ts)
	return opchildtypes.NewMsgUpdateOracle(world.Addr("executor").String(), 11, data)
}

func (y *c18L2Sys) Step(s *c18L2State, l engine.Letter) (*c18L2State, string, *engine.Violation) {
	op := l.Data.(c18L2Op)
	c := &c18L2State{w: s.w, plans: s.plans, depth: s.depth + 1}
	if op.kind == "plan" {
		ctx, _ := s.ctx.CacheContext()
		c.ctx = ctx
		s.w.K.ExecutorChangePlans = world.ClonePlans(s.plans)
		err := s.w.K.RegisterExecutorChangePlan(1, uint64(ctx.BlockHeight()), valOf("o3"), "m", pubKeyJSON(s.w, "k3"), "i", []string{world.Addr("e2").String(), world.Addr("e3").String(), world.Addr("e1").String()})
		c.plans = world.ClonePlans(s.w.K.ExecutorChangePlans)
		s.w.K.ExecutorChangePlans = map[uint64]opchildtypes.ExecutorChangePlan{}
		if err != nil {
			return c, "rejected", nil
		}
		return c, "registered", nil
	}
	tw := y.twin(s.w)
	var kept sdk.Context
	keptOK := false
	// run executes the letter on a fresh branch; limit < 0: no gas limit
	run := func(kind string, limit int64) (c18Obs, sdk.Context, bool) {
		w := s.w
		var ctx sdk.Context
		if kind == "twin" {
			w = tw
			ctx, _ = tw.Ctx.CacheContext()
			ctx = ctx.WithBlockHeight(s.ctx.BlockHeight()).WithBlockTime(s.ctx.BlockTime()).WithBlockHeader(s.ctx.BlockHeader())
			world.CopyState(s.ctx, s.w.StoreKeys, ctx, tw.StoreKeys)
		} else {
			ctx, _ = s.ctx.CacheContext()
			if kind == "cold" {
				w = s.w.Respawn()
			}
		}
		// the plan table lives in the keeper's memory, not in the store: it is set from the state before
		// a run, except for the immediate repeat, which inherits what run A left behind
		if kind != "repeat" {
			w.K.ExecutorChangePlans = world.ClonePlans(s.plans)
		}
		if kind != "A" || limit >= 0 {
			defer func() { w.K.ExecutorChangePlans = map[uint64]opchildtypes.ExecutorChangePlan{} }()
		}
		var o c18Obs
		ok := false
		switch op.kind {
		case "msg", "oracle", "oracle-untracked", "oracle-untracked-few", "oracle-stale":
			var r world.DeliverResult
			if limit >= 0 {
				r = w.DeliverGas(ctx, y.message(op, w, ctx), uint64(limit))
			} else {
				r = w.Deliver(ctx, y.message(op, w, ctx))
			}
			o, ok = obsOf(r), r.OK()
		case "block":
			n, ups, e := c16NextBlock(w, ctx)
			ctx = n
			o = c18Obs{err: e, extra: ups}
			ok = e == ""
		case "export":
			func() {
				defer func() {
					if r := recover(); r != nil {
						o.err = fmt.Sprintf("panic: %v", r)
					}
				}()
				bz, err := w.Enc.Marshaler.MarshalJSON(w.K.ExportGenesis(ctx))
				if err != nil {
					o.err = err.Error()
				}
				o.resp, ok = string(bz), err == nil
			}()
		}
		o.dump = dumpHash(ctx, w)
		return o, ctx, ok
	}
	v := c18Compare(y.st, l.Name, func(kind string) c18Obs {
		o, ctx, ok := run(kind, -1)
		if kind == "A" {
			kept, keptOK = ctx, ok
		}
		return o
	})
	c.ctx = kept
	if v != nil {
		return c, "x", v
	}
	if op.kind != "block" && op.kind != "export" && s.depth <= y.sweep {
		d := y.Digest(s)
		key := string(d[:]) + l.Name
		sv, done := y.swept.Load(key)
		if !done {
			sv = y.gasSweep(s, op, l.Name, run)
			y.swept.Store(key, sv)
		}
		if v := sv.(*engine.Violation); v != nil {
			return c, "x", v
		}
	}
	if op.kind == "block" && !keptOK {
		return c, "cut", &engine.Violation{Clause: "cut:block-failed", Msg: "block processing failed (C13/C14's subject)"}
	}
	if keptOK {
		return c, "accepted", nil
	}
	return c, "rejected", nil
}

// gasSweep runs the same message under every transaction gas limit at which its reference execution
// can run out of gas: what a node reports for an out-of-gas transaction (error text with the location,
// gas used) is part of the block's results hash like any other result.
func (y *c18L2Sys) gasSweep(s *c18L2State, op c18L2Op, name string, run func(kind string, limit int64) (c18Obs, sdk.Context, bool)) *engine.Violation {
	end := c18MapBegin(nil)
	bctx, _ := s.ctx.CacheContext()
	s.w.K.ExecutorChangePlans = world.ClonePlans(s.plans)
	marks := s.w.GasTrace(bctx, y.message(op, s.w, bctx))
	s.w.K.ExecutorChangePlans = map[uint64]opchildtypes.ExecutorChangePlan{}
	end()
	return c18Sweep(y.st, name, marks, run)
}

// c18Limits: for the cumulative gas marks m1 < m2 < … of an execution, the limits mi−1 (the i-th charge
// is the one that crosses the limit) and the total (the message just fits).
func c18Limits(marks []uint64) []uint64 {
	var out []uint64
	last := uint64(0)
	for _, m := range marks {
		if m == 0 || m == last {
			continue
		}
		out = append(out, m-1)
		last = m
	}
	if last > 0 {
		out = append(out, last)
	}
	return out
}

// ------------------------------------------------------------------------------------------

type c18Finding struct {
	Kind         string `json:"kind"`
	File         string `json:"file"`
	Line         int    `json:"line"`
	Detail       string `json:"detail"`
	Instrumented bool   `json:"instrumented"`
	Allowed      bool   `json:"allowed"`
}

func c18Census(res *engine.Result, known func(*engine.Violation) (string, bool)) {
	path := os.Getenv("VERIF_CENSUS")
	bz, err := os.ReadFile(path)
	if err != nil {
		res.HarnessErr = fmt.Errorf("census results not found (VERIF_CENSUS=%q): %v", path, err)
		return
	}
	var f struct {
		Findings []c18Finding `json:"findings"`
		Packages int          `json:"packages"`
	}
	if err := json.Unmarshal(bz, &f); err != nil {
		res.HarnessErr = err
		return
	}
	inst, allowed := 0, 0
	for _, x := range f.Findings {
		switch {
		case x.Instrumented:
			inst++
		case x.Allowed:
			allowed++
		default:
			v := tagged(viol("no-unowned-source-of-nondeterminism", "%s at %s:%d (%s) is a source of nondeterminism the harness does not own", x.Kind, x.File, x.Line, x.Detail), "kind", x.Kind, "search", "census")
			v.Path = []string{fmt.Sprintf("%s:%d:%s", x.File, x.Line, x.Kind)}
			if id, ok := known(v); ok {
				res.KnownHits[id]++
				res.KnownWit[id] = v
			} else {
				res.Violations = append(res.Violations, v)
			}
		}
	}
	res.Coverage["census"] = map[string]any{"packages": f.Packages, "findings": f.Findings, "map_ranges_instrumented": inst, "whitelisted_uses": allowed}
	res.Require(f.Packages >= 10, "census scanned only %d packages", f.Packages)
}

func newC18Stats() *c18Stats { return &c18Stats{sites: map[string]int{}} }

func init() {
	register(&Check{ID: "C18", Level: "model_checking", FreshProcessReplay: true,
		SameFinding: func(found, replayed string) bool {
			fam := map[string]bool{"same-node-repeats-itself": true, "independent-node-agrees": true, "restarted-node-agrees": true, "result-independent-of-map-iteration-order": true}
			return fam[found] && fam[replayed]
		},
		Run: func(rc *engine.RunCtx) *engine.Result {
			res := engine.NewResult()
			c18Census(res, rc.Known.Matcher(rc.Property))
			if res.HarnessErr != nil {
				return res
			}
			st := newC18Stats()
			o := opts(rc, pick(rc, 3, 4))
			o.Deadline = time.Now().Add(time.Until(rc.Deadline()) / 2)
			rep, err := engine.Explore[*c16L1State](&c18L1Sys{inner: newC16L1Sys(), st: st, sweep: pick(rc, 0, 1), twins: map[*world.L1]*world.L1{}}, o)
			if err != nil {
				res.HarnessErr = err
				return res
			}
			res.Absorb("l1", rep)
			rep2, err := engine.Explore[*c18L2State](&c18L2Sys{st: st, votes: c18Votes(), sweep: pick(rc, 0, 1), twins: map[*world.L2]*world.L2{}}, opts(rc, pick(rc, 3, 5)))
			if err != nil {
				res.HarnessErr = err
				return res
			}
			res.Absorb("l2", rep2)
			res.Coverage["executions"] = st.execs.Load()
			res.Coverage["map_order_runs"] = st.permRuns.Load()
			res.Coverage["gas_limit_sweep"] = map[string]any{"limits_tried": st.gasLimits.Load(), "of_which_out_of_gas": st.gasOOG.Load(), "states": "every message letter of every L2 state at depth ≤ " + fmt.Sprint(pick(rc, 0, 1)) + " (L1: the same)", "limits": "for the cumulative gas after every single charge of the unlimited execution, that value − 1, plus the total"}
			res.Require(st.gasOOG.Load() > 0, "the gas-limit sweep never produced an out-of-gas execution")
			res.Coverage["map_sites_reached"] = st.sites
			res.Coverage["alphabet"] = "L1: every ophost message type (C16's alphabet) + time; L2: credited/refunded deposits, withdrawal, AddValidator ×3, RemoveValidator ×3, UpdateParams, UpdateOracle with three voters (a fresh timestamp with partial pair coverage; every pair under the newest stored timestamp, which is rejected part-way), RegisterPlan, NextBlock (real End/BeginBlocker)"
			res.Coverage["oracle"] = "every transition of every explored state is executed twice on the same node, once on a second independently constructed node loaded with the parent's raw store content, and once per permutation (all n! for n ≤ 4) at every instrumented map-range site it reaches; response bytes, full error text, ordered events, gas, ordered validator updates and the digest of every store must be identical; census: no goroutine, select, channel operation, randomness, environment read or wall-clock use outside telemetry, every map range instrumented"
			res.Assumptions = []string{"the overlay instruments the map ranges of both OPinit modules and of connect's abci/strategies/aggregator, pkg/math/voteweighted and aggregator packages (the UpdateOracle path); map iteration in other dependencies is exercised only by Go's own per-range randomisation across the ≥3 executions of every transition"}
			res.Require(len(st.sites) > 0, "no instrumented map range was ever reached")
			multi := false
			for k := range st.sites {
				if !strings.Contains(k, "(n=0)") && !strings.Contains(k, "(n=1)") {
					multi = true
				}
			}
			res.Require(multi, "no map range with ≥2 entries was reached (no permutation explored)")
			return res
		},
		Replay: func(kind string, path []string) ([]string, *engine.Violation, error) {
			st := newC18Stats()
			switch kind {
			case "census":
				res := engine.NewResult()
				c18Census(res, func(*engine.Violation) (string, bool) { return "", false })
				for _, v := range res.Violations {
					if len(path) == 1 && v.Path[0] == path[0] {
						return []string{"found"}, v, nil
					}
				}
				return nil, nil, res.HarnessErr
			case "l2":
				return engine.Replay[*c18L2State](&c18L2Sys{st: st, votes: c18Votes(), sweep: 1, twins: map[*world.L2]*world.L2{}}, path)
			}
			return engine.Replay[*c16L1State](&c18L1Sys{inner: newC16L1Sys(), st: st, sweep: 1, twins: map[*world.L1]*world.L1{}}, path)
		},
	})
}

func c18Votes() *c15Sys {
	// unequal powers: the stored validator records differ in length, so the cost of reading them does too
	y := newC15Sys("V(100,10,1)", 0)
	y.genesisVals = [][2]string{{"o1", "k1"}, {"o2", "k2"}, {"o3", "k3"}}
	return y
}
