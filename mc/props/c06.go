package props

import (
	"math"

	sdkmath "cosmossdk.io/math"
	"fmt"
	"strconv"
	"strings"

	sdk "github.com/cosmos/cosmos-sdk/types"
	banktypes "github.com/cosmos/cosmos-sdk/x/bank/types"

	opchildtypes "github.com/initia-labs/OPinit/x/opchild/types"

	"verifmc/engine"
	"verifmc/ref"
	"verifmc/world"
)

// C06 — L2 credits each L1 deposit exactly once, in order, under any relay schedule.

var c06Denom = ref.L2Denom(1, "uxx")

type c06State struct {
	ctx       sdk.Context
	w         *world.L2
	next      uint64 // model: 1 + processed
	nextL2    uint64
	execs     [2]bool // E1, E2 currently authorised
	bal       map[string]int64
	supply    int64
	processed map[uint64]string // seq -> variant that was processed
}

type c06Sys struct{}

type c06Deliver struct {
	seq     uint64
	by      string
	variant int
}
type c06Withdraw struct{}
type c06Send struct{}
type c06Restart struct{}
type c06SetInfo struct{}
type c06Execs struct {
	e1, e2 bool
	upper  bool // e1 is written into the parameters in upper-case bech32: the same account
}

func (c06Sys) Root() *c06State {
	w := world.NewL2(world.L2Options{
		Accounts:  map[string]sdk.Coins{"alice": nil, "bob": nil, "e1": nil, "e2": nil, "stranger": nil, "admin": nil},
		Executors: []string{"e1", "e2"},
	})
	return &c06State{ctx: w.Ctx, w: w, next: 1, nextL2: 1, execs: [2]bool{true, true}, bal: map[string]int64{}, processed: map[uint64]string{}}
}

// the model is part of the state key: a change that turns an operation into a no-op on the stores must
// not make the successor look like an already visited state (its model differs, and Check has to see it)
func (c06Sys) Digest(s *c06State) [32]byte {
	return s.w.Digest(s.ctx, []byte(fmt.Sprint(s.next, s.nextL2, s.execs, s.bal, s.supply)))
}

func (c06Sys) Letters(s *c06State) []engine.Letter {
	var ls []engine.Letter
	for seq := uint64(1); seq <= 4; seq++ {
		for _, by := range []string{"e1", "e2", "stranger"} {
			for v := 0; v < 2; v++ {
				ls = append(ls, engine.Letter{Name: fmt.Sprintf("Deliver(seq=%d,by=%s,content=%s)", seq, by, []string{"orig", "altered"}[v]), Data: c06Deliver{seq, by, v}})
			}
		}
		// a replay (or a message ahead of its turn) naming a denom the chain has never seen: a no-op
		// must not even register it
		if seq != s.next {
			ls = append(ls, engine.Letter{Name: fmt.Sprintf("Deliver(seq=%d,by=e1,content=another-denom)", seq), Data: c06Deliver{seq, "e1", 2}})
		}
	}
	ls = append(ls, engine.Letter{Name: "UserWithdraw(alice,1)", Data: c06Withdraw{}})
	ls = append(ls, engine.Letter{Name: "BankSend(alice->bob,1)", Data: c06Send{}})
	ls = append(ls, engine.Letter{Name: "SetExecutors(e2)", Data: c06Execs{false, true, false}})
	ls = append(ls, engine.Letter{Name: "SetExecutors(e1,e2)", Data: c06Execs{true, true, false}})
	ls = append(ls, engine.Letter{Name: "SetExecutors(E1-IN-UPPER-CASE,e2)", Data: c06Execs{true, true, true}})
	ls = append(ls, engine.Letter{Name: "RestartViaGenesis", Data: c06Restart{}})
	// the executor registers (first time) or refreshes the bridge info: other handlers' bookkeeping,
	// the deposit sequence is none of its business
	ls = append(ls, engine.Letter{Name: "SetBridgeInfo(by=e1)", Data: c06SetInfo{}})
	return ls
}

// c06Msg builds the finalize message for a sequence: seq 2 has a malformed recipient (refund path),
// seq 3 is credited but carries an undecodable hook (minted, reclaimed, burnt, refunded); seq 4
// (original content) carries a hook in which the delivering executor relays seq 4 once more;
// "altered" content differs in recipient and amount from what was (or will be) processed.
// toName == "" means the deposit ends in a refund.
func c06Msg(seq uint64, by string, variant int) (*opchildtypes.MsgFinalizeTokenDeposit, string, int64) {
	to := world.Addr("alice").String()
	toName := "alice"
	var data []byte
	if seq == 2 {
		to, toName = "garbage-recipient", ""
	}
	amt := int64(seq)
	if variant == 2 {
		return opchildtypes.NewMsgFinalizeTokenDeposit(world.Addr(by).String(), "l1sender", to, sdk.NewInt64Coin(ref.L2Denom(1, "never-deposited"), amt), seq, 5, "never-deposited", nil), "alice", amt
	}
	if variant == 1 {
		amt += 10
		to, toName = world.Addr("bob").String(), "bob"
	} else if seq == 3 {
		data, toName = []byte{0xde, 0xad}, ""
	}
	coin := sdk.NewInt64Coin(c06Denom, amt)
	if seq == 2 && variant == 0 {
		// the refunded deposit carries the largest amount L1 can emit (2^64-1): nothing is credited, so the
		// int64 ledger of the model is not involved
		coin = sdk.NewCoin(c06Denom, sdkmath.NewIntFromUint64(math.MaxUint64))
	}
	return opchildtypes.NewMsgFinalizeTokenDeposit(world.Addr(by).String(), "l1sender", to, coin, seq, 5, "uxx", data), toName, amt
}

func (c06Sys) Step(s *c06State, l engine.Letter) (*c06State, string, *engine.Violation) {
	ctx, _ := s.ctx.CacheContext()
	c := &c06State{ctx: ctx, w: s.w, next: s.next, nextL2: s.nextL2, execs: s.execs, bal: s.bal, supply: s.supply, processed: s.processed}
	before := s.w.Digest(s.ctx)
	cloneBal := func() {
		m := map[string]int64{}
		for k, v := range s.bal {
			m[k] = v
		}
		c.bal = m
	}
	switch d := l.Data.(type) {
	case c06SetInfo:
		res := s.w.Deliver(ctx, opchildtypes.NewMsgSetBridgeInfo(world.Addr("e1").String(), c12Info("07-tendermint-0")))
		if res.OK() != s.execs[0] {
			return c, "x", viol("only-executors-finalize-deposits", "SetBridgeInfo by e1 accepted=%v although executor=%v (%v)", res.OK(), s.execs[0], res.Err)
		}
		if res.OK() {
			return c, "ok", nil
		}
		return c, "rejected", nil
	case c06Restart:
		if err := s.w.RestartViaGenesis(ctx); err != nil {
			return c, "error", viol("sequences-survive-a-restart", "export / validate / import of the module genesis failed: %v", err)
		}
		return c, "ok", nil
	case c06Execs:
		var execs []string
		if d.e1 {
			e := world.Addr("e1").String()
			if d.upper {
				e = strings.ToUpper(e)
			}
			execs = append(execs, e)
		}
		if d.e2 {
			execs = append(execs, world.Addr("e2").String())
		}
		p, err := s.w.K.GetParams(ctx)
		if err != nil {
			panic(err)
		}
		p.BridgeExecutors = execs
		msg, err := opchildtypes.NewMsgExecuteMessages(world.Addr("admin").String(), []sdk.Msg{opchildtypes.NewMsgUpdateParams(s.w.Authority, &p)})
		if err != nil {
			panic(err)
		}
		res := s.w.Deliver(ctx, msg)
		if !res.OK() {
			return c, "rejected", viol("harness-expectation", "executor update failed: %v", res.Err)
		}
		c.execs = [2]bool{d.e1, d.e2}
		return c, "ok", nil
	case c06Send:
		res := s.w.Deliver(ctx, banktypes.NewMsgSend(world.Addr("alice"), world.Addr("bob"), sdk.NewCoins(sdk.NewInt64Coin(c06Denom, 1))))
		if res.OK() {
			cloneBal()
			c.bal["alice"]--
			c.bal["bob"]++
			return c, "ok", nil
		}
		return c, "rejected", nil
	case c06Withdraw:
		res := s.w.Deliver(ctx, opchildtypes.NewMsgInitiateTokenWithdrawal(world.Addr("alice").String(), "l1recipient", sdk.NewInt64Coin(c06Denom, 1)))
		if res.OK() {
			cloneBal()
			c.bal["alice"]--
			c.supply--
			c.nextL2++
			return c, "ok", nil
		}
		return c, "rejected", nil
	case c06Deliver:
		msg, toName, amt := c06Msg(d.seq, d.by, d.variant)
		if d.seq == 4 && d.variant == 0 {
			// re-entrant relay: the deposit's hook, signed by the delivering account itself, relays this
			// very deposit again (same sequence, no hook). While the hook runs the sequence already
			// counts as processed, so the inner message is a no-op and the deposit is credited once.
			if acc := s.w.AK.GetAccount(ctx, world.Addr(d.by)); acc != nil {
				inner := *msg
				key := world.SecpKey(d.by)
				msg.Data = signHookTx(s.w, []sdk.Msg{&inner}, key, key.PubKey(), acc.GetAccountNumber(), acc.GetSequence(), ctx.ChainID())
			}
		}
		res := s.w.Deliver(ctx, msg)
		authorised := (d.by == "e1" && s.execs[0]) || (d.by == "e2" && s.execs[1])
		unchanged := s.w.Digest(ctx) == before
		if res.Panicked {
			return c, "panic", viol("handler-panic", "FinalizeTokenDeposit panicked: %s", res.PanicVal)
		}
		if !authorised {
			if res.OK() {
				return c, "accepted", viol("only-executors-finalize-deposits", "deposit finalization by %s accepted (executors e1=%v e2=%v)", d.by, s.execs[0], s.execs[1])
			}
			if !unchanged {
				return c, "rejected", viol("rejected-message-has-no-effect", "unauthorised delivery changed state")
			}
			return c, "rejected-unauthorised", nil
		}
		switch {
		case d.seq < s.next:
			if !res.OK() {
				return c, "error", viol("processed-sequence-is-a-noop", "re-delivery of processed sequence %d returned an error: %v", d.seq, res.Err)
			}
			r := res.Resp.(*opchildtypes.MsgFinalizeTokenDepositResponse)
			if r.Result != opchildtypes.NOOP {
				return c, "accepted", tagged(viol("processed-sequence-is-a-noop", "re-delivery of processed sequence %d (next=%d) answered %s", d.seq, s.next, r.Result), "kind", "replay-processed")
			}
			if !unchanged {
				return c, "noop", viol("processed-sequence-is-a-noop", "NOOP for sequence %d changed state", d.seq)
			}
			if len(res.Events) != 0 {
				return c, "noop", viol("processed-sequence-is-a-noop", "NOOP for sequence %d emitted %d events", d.seq, len(res.Events))
			}
			return c, "noop", nil
		case d.seq > s.next:
			if res.OK() {
				return c, "accepted", viol("sequence-ahead-is-rejected", "sequence %d accepted while next expected is %d", d.seq, s.next)
			}
			if !unchanged {
				return c, "rejected", viol("rejected-message-has-no-effect", "rejected delivery of a future sequence changed state")
			}
			return c, "rejected-ahead", nil
		}
		// d.seq == next: must be processed now, exactly once
		if !res.OK() {
			return c, "error", viol("next-sequence-is-processed", "delivery of the expected sequence %d failed: %v", d.seq, res.Err)
		}
		r := res.Resp.(*opchildtypes.MsgFinalizeTokenDepositResponse)
		if r.Result != opchildtypes.SUCCESS {
			return c, "accepted", viol("next-sequence-is-processed", "delivery of the expected sequence %d answered %s", d.seq, r.Result)
		}
		evs := world.EventsOfType(res.Events, "finalize_token_deposit")
		if len(evs) != 1 {
			return c, "accepted", viol("next-sequence-is-processed", "%d finalize_token_deposit events", len(evs))
		}
		if v, _ := world.Attr(evs[0], "l1_sequence"); v != strconv.FormatUint(d.seq, 10) {
			return c, "accepted", viol("next-sequence-is-processed", "event names sequence %s", v)
		}
		for k, w := range map[string]string{"sender": msg.From, "recipient": msg.To, "denom": msg.Amount.Denom, "base_denom": msg.BaseDenom, "amount": msg.Amount.Amount.String(), "finalize_height": strconv.FormatUint(msg.Height, 10)} {
			if got, ok := world.Attr(evs[0], k); !ok || got != w {
				return c, "accepted", viol("next-sequence-is-processed", "finalize_token_deposit event: %s=%q, the relayed deposit says %q", k, got, w)
			}
		}
		wevs := world.EventsOfType(res.Events, "initiate_token_withdrawal")
		cloneBal()
		c.next = s.next + 1
		np := map[uint64]string{}
		for k, v := range s.processed {
			np[k] = v
		}
		np[d.seq] = []string{"orig", "altered", "another-denom"}[d.variant]
		c.processed = np
		if toName == "" {
			if len(wevs) != 1 {
				return c, "accepted", viol("deposit-credited-or-refunded-exactly-once", "malformed recipient: %d refund withdrawal events", len(wevs))
			}
			c.nextL2 = s.nextL2 + 1
			return c, "success-refunded", nil
		}
		if len(wevs) != 0 {
			return c, "accepted", viol("deposit-credited-or-refunded-exactly-once", "valid recipient but %d refund events", len(wevs))
		}
		c.bal[toName] += amt
		c.supply += amt
		return c, "success-credited", nil
	}
	panic("unknown letter")
}

func (c06Sys) Check(s *c06State) *engine.Violation {
	r, err := s.w.Q.NextL1Sequence(s.ctx, &opchildtypes.QueryNextL1SequenceRequest{})
	if err != nil || r.NextL1Sequence != s.next {
		return viol("next-sequence-query-is-one-plus-processed", "NextL1Sequence query %v, model %d (err=%v)", r, s.next, err)
	}
	r2, err := s.w.Q.NextL2Sequence(s.ctx, &opchildtypes.QueryNextL2SequenceRequest{})
	if err != nil || r2.NextL2Sequence != s.nextL2 {
		return viol("l2-sequence-counts-withdrawals", "NextL2Sequence query %v, model %d (err=%v)", r2, s.nextL2, err)
	}
	for _, a := range []string{"alice", "bob"} {
		if got := s.w.BK.GetBalance(s.ctx, world.Addr(a), c06Denom).Amount.Int64(); got != s.bal[a] {
			return viol("each-deposit-credited-exactly-once", "%s holds %d, ledger %d", a, got, s.bal[a])
		}
	}
	if got := s.w.BK.GetSupply(s.ctx, c06Denom).Amount.Int64(); got != s.supply {
		return viol("each-deposit-credited-exactly-once", "supply %d, ledger %d", got, s.supply)
	}
	return nil
}

func init() {
	register(&Check{ID: "C06", Level: "model_checking",
		Run: func(rc *engine.RunCtx) *engine.Result {
			res := engine.NewResult()
			rep, err := engine.Explore[*c06State](c06Sys{}, opts(rc, pick(rc, 8, 11)))
			if err != nil {
				res.HarnessErr = err
				return res
			}
			res.Absorb("c06", rep)
			res.Coverage["alphabet"] = "Deliver(seq∈1..4, by∈{e1,e2,stranger}, content∈{orig,altered}) (seq 2 has a malformed recipient, seq 3 a failing hook); UserWithdraw; BankSend; SetExecutors({e2}|{e1,e2}) via ExecuteMessages"
			res.Coverage["oracle"] = "seq<next by an executor ⇒ NOOP, digest unchanged, no event; seq>next ⇒ error, unchanged; seq=next ⇒ SUCCESS, one finalize event, credited or refunded exactly once, next+1; non-executor ⇒ unauthorised, unchanged; NextL1Sequence/NextL2Sequence queries, balances and supply = model in every state"
			res.Assumptions = []string{"schedules = all letter sequences up to the completed depth; two racing executors are interleavings of their letters"}
			for _, k := range []string{"Deliver/noop", "Deliver/rejected-ahead", "Deliver/success-credited", "Deliver/success-refunded", "Deliver/rejected-unauthorised", "UserWithdraw/ok"} {
				res.Require(res.OutcomeCount("c06", k) > 0, "outcome %s never occurred", k)
			}
			return res
		},
		Replay: func(kind string, path []string) ([]string, *engine.Violation, error) {
			return engine.Replay[*c06State](c06Sys{}, path)
		},
	})
}
