package props

import (
	"bytes"
	"errors"
	"fmt"
	"strings"
	"sync/atomic"
	"time"

	sdk "github.com/cosmos/cosmos-sdk/types"
	"github.com/cosmos/cosmos-sdk/types/bech32"
	sdkerrors "github.com/cosmos/cosmos-sdk/types/errors"
	authtypes "github.com/cosmos/cosmos-sdk/x/auth/types"
	banktypes "github.com/cosmos/cosmos-sdk/x/bank/types"

	connecttypes "github.com/skip-mev/connect/v2/pkg/types"
	oracletypes "github.com/skip-mev/connect/v2/x/oracle/types"

	opchild "github.com/initia-labs/OPinit/x/opchild"
	opchildtypes "github.com/initia-labs/OPinit/x/opchild/types"
	ophosttypes "github.com/initia-labs/OPinit/x/ophost/types"

	"verifmc/engine"
	"verifmc/world"
)

// C12 — authorization is complete and follows the current role holder (L1 and L2).

// ------------------------------------------------------------------------------------------ L1

type c12L1State struct {
	ctx  sdk.Context
	w    *world.L1
	prop [2]string
	chal [2]string
}

type c12L1Sys struct {
	tree   *wtree
	probes atomic.Int64
	allow  atomic.Int64
	deny   atomic.Int64
}

var c12L1Signers = []string{"gov", "proposer", "proposer2", "challenger", "challenger2", "submitter", "creator", "stranger"}

type c12Rot struct {
	b    int
	role string // proposer | challenger
	to   string
	by   string // gov | current
	// upper: the new holder's address is written in upper-case bech32 in the message (the same account;
	// the holder later signs with the usual lower-case spelling)
	upper bool
}

func newC12L1Sys() *c12L1Sys {
	bob := world.Addr("bob").String()
	ws := []wd{{Bridge: 1, Seq: 1, From: "l2user", To: bob, Denom: "uxx", Amount: 1}, {Bridge: 1, Seq: 2, From: "l2user", To: bob, Denom: "uxx", Amount: 1}}
	return &c12L1Sys{tree: mkTree("c12", ws, 0)}
}

func (y *c12L1Sys) Root() *c12L1State {
	w := newL1TwoBridges(10 * time.Second)
	ctx := w.Ctx
	must := func(r world.DeliverResult) {
		if !r.OK() {
			panic(r.Err)
		}
	}
	must(w.Deliver(ctx, ophosttypes.NewMsgInitiateTokenDeposit(world.Addr("alice").String(), 1, "l2", world.Coin("uxx", 50), nil)))
	for b := uint64(1); b <= 2; b++ {
		must(w.Deliver(ctx, ophosttypes.NewMsgProposeOutput(world.Addr("proposer").String(), b, 1, 10, y.tree.OutputRoot[:])))
	}
	ctx = world.Advance(ctx, 11*time.Second)
	for b := uint64(1); b <= 2; b++ {
		must(w.Deliver(ctx, ophosttypes.NewMsgProposeOutput(world.Addr("proposer").String(), b, 2, 20, y.tree.OutputRoot[:])))
	}
	return &c12L1State{ctx: ctx, w: w, prop: [2]string{"proposer", "proposer"}, chal: [2]string{"challenger", "challenger"}}
}

// the model is part of the state key: a change that turns an operation into a no-op on the stores must
// not make the successor look like an already visited state (its model differs, and Check has to see it)
func (y *c12L1Sys) Digest(s *c12L1State) [32]byte {
	return s.w.Digest(s.ctx, []byte(fmt.Sprint(s.prop, s.chal)))
}

func (y *c12L1Sys) Letters(s *c12L1State) []engine.Letter {
	var ls []engine.Letter
	for b := 0; b < 2; b++ {
		for _, to := range []string{"proposer", "proposer2"} {
			for _, by := range []string{"gov", "current"} {
				ls = append(ls, engine.Letter{Name: fmt.Sprintf("UpdateProposer(b%d,to=%s,by=%s)", b+1, to, by), Data: c12Rot{b, "proposer", to, by, false}})
			}
		}
		for _, to := range []string{"challenger", "challenger2"} {
			for _, by := range []string{"gov", "current"} {
				ls = append(ls, engine.Letter{Name: fmt.Sprintf("UpdateChallenger(b%d,to=%s,by=%s)", b+1, to, by), Data: c12Rot{b, "challenger", to, by, false}})
			}
		}
	}
	// one account in both roles of bridge 1 (legal): it must then pass every guard either role passes
	ls = append(ls, engine.Letter{Name: "UpdateChallenger(b1,to=the-current-proposer,by=gov)", Data: c12Rot{0, "challenger", s.prop[0], "gov", false}})
	ls = append(ls, engine.Letter{Name: "UpdateProposer(b1,to=PROPOSER2-IN-UPPER-CASE,by=gov)", Data: c12Rot{0, "proposer", "proposer2", "gov", true}})
	ls = append(ls, engine.Letter{Name: "UpdateChallenger(b1,to=CHALLENGER2-IN-UPPER-CASE,by=gov)", Data: c12Rot{0, "challenger", "challenger2", "gov", true}})
	return ls
}

func (s *c12L1State) addr(name string) string {
	if name == "gov" {
		return s.w.Authority
	}
	return world.Addr(name).String()
}

func (y *c12L1Sys) Step(s *c12L1State, l engine.Letter) (*c12L1State, string, *engine.Violation) {
	ctx, _ := s.ctx.CacheContext()
	c := &c12L1State{ctx: ctx, w: s.w, prop: s.prop, chal: s.chal}
	d := l.Data.(c12Rot)
	var res world.DeliverResult
	if d.role == "proposer" {
		by := s.addr("gov")
		if d.by == "current" {
			by = s.addr(s.prop[d.b])
		}
		to := s.addr(d.to)
		if d.upper {
			to = strings.ToUpper(to)
		}
		res = s.w.Deliver(ctx, ophosttypes.NewMsgUpdateProposer(by, uint64(d.b+1), to))
		if res.OK() {
			c.prop[d.b] = d.to
		}
	} else {
		by := s.addr("gov")
		if d.by == "current" {
			by = s.addr(s.chal[d.b])
		}
		to := s.addr(d.to)
		if d.upper {
			to = strings.ToUpper(to)
		}
		res = s.w.Deliver(ctx, ophosttypes.NewMsgUpdateChallenger(by, uint64(d.b+1), to))
		if res.OK() {
			c.chal[d.b] = d.to
		}
	}
	if !res.OK() {
		return c, "rejected", viol("current-holder-may-act", "%s by an allowed signer failed: %v", l.Name, res.Err)
	}
	return c, "accepted", nil
}

type c12Probe struct {
	name    string
	msg     sdk.Msg
	allowed bool
	signer  string // account name expected as the sole signer
}

func (y *c12L1Sys) probesFor(s *c12L1State, b int) []c12Probe {
	var ps []c12Probe
	id := uint64(b + 1)
	for _, sg := range c12L1Signers {
		a := s.addr(sg)
		isGov, isP, isC := sg == "gov", sg == s.prop[b], sg == s.chal[b]
		cfgBatch := ophosttypes.BatchInfo{Submitter: world.Addr("submitter").String(), ChainType: ophosttypes.BatchInfo_CHAIN_TYPE_CELESTIA}
		params := ophosttypes.DefaultParams()
		cfg := world.BridgeConfig("proposer", "challenger", 10*time.Second)
		add := func(name string, m sdk.Msg, allowed bool) {
			ps = append(ps, c12Probe{fmt.Sprintf("%s(b%d,by=%s)", name, id, sg), m, allowed, sg})
		}
		add("ProposeOutput", ophosttypes.NewMsgProposeOutput(a, id, 3, 30, y.tree.OutputRoot[:]), isP)
		add("DeleteOutput", ophosttypes.NewMsgDeleteOutput(a, id, 2), isGov || isP || isC)
		add("UpdateProposer", ophosttypes.NewMsgUpdateProposer(a, id, world.Addr("stranger").String()), isGov || isP)
		add("UpdateChallenger", ophosttypes.NewMsgUpdateChallenger(a, id, world.Addr("stranger").String()), isGov || isC)
		add("UpdateBatchInfo", ophosttypes.NewMsgUpdateBatchInfo(a, id, cfgBatch), isGov || isP)
		add("UpdateMetadata", ophosttypes.NewMsgUpdateMetadata(a, id, []byte("hello")), isGov || isP)
		add("UpdateOracleConfig", ophosttypes.NewMsgUpdateOracleConfig(a, id, true), isGov || isP)
		if b == 0 {
			add("UpdateParams", ophosttypes.NewMsgUpdateParams(a, &params), isGov)
			// permissionless messages: any signer
			add("CreateBridge", ophosttypes.NewMsgCreateBridge(a, cfg), true)
			add("InitiateTokenDeposit", ophosttypes.NewMsgInitiateTokenDeposit(a, 1, "l2addr", world.Coin("uxx", 0), nil), true)
			add("RecordBatch", ophosttypes.NewMsgRecordBatch(a, 1, []byte{1}), true)
			m := y.tree.claim(0, 1, "bob")
			m.Sender = a
			add("FinalizeTokenWithdrawal", m, true)
		}
	}
	return ps
}

func (y *c12L1Sys) Check(s *c12L1State) *engine.Violation {
	for b := 0; b < 2; b++ {
		for _, p := range y.probesFor(s, b) {
			y.probes.Add(1)
			signers, _, err := s.w.Enc.Marshaler.GetMsgV1Signers(p.msg)
			wantAddr, _ := s.w.AK.AddressCodec().StringToBytes(s.addr(p.signer))
			if err != nil || len(signers) != 1 || !bytes.Equal(signers[0], wantAddr) {
				return viol("declared-signer-is-the-checked-account", "%s: the signer the ante handler verifies (%x, err=%v) is not the account the handler authorises", p.name, signers, err)
			}
			ctx, _ := s.ctx.CacheContext()
			before := s.w.Digest(ctx)
			res := s.w.Deliver(ctx, p.msg)
			if res.Panicked {
				return viol("handler-panic", "%s panicked: %s", p.name, res.PanicVal)
			}
			if p.allowed {
				y.allow.Add(1)
				if !res.OK() {
					return tagged(viol("current-holder-may-act", "%s is allowed (proposer=%s challenger=%s) but failed: %v", p.name, s.prop[b], s.chal[b], res.Err), "msg", strings.SplitN(p.name, "(", 2)[0])
				}
			} else {
				y.deny.Add(1)
				if res.OK() {
					return tagged(viol("permissioned-message-needs-role", "%s succeeded although the signer holds no allowed role (proposer=%s challenger=%s)", p.name, s.prop[b], s.chal[b]), "msg", strings.SplitN(p.name, "(", 2)[0])
				}
				if s.w.Digest(ctx) != before {
					return viol("rejected-message-has-no-effect", "%s was rejected but changed state", p.name)
				}
			}
		}
	}
	return nil
}

// ------------------------------------------------------------------------------------------ L2

type c12L2State struct {
	ctx     sdk.Context
	w       *world.L2
	admin   string
	execs   []string
	info    *opchildtypes.BridgeInfo
	planned bool
}

type c12L2Sys struct {
	votes  *c15Sys
	probes atomic.Int64
	allow  atomic.Int64
	deny   atomic.Int64
}

var c12L2Signers = []string{"authority", "admin", "admin2", "e1", "e2", "e3", "stranger"}

type c12SetAdmin struct {
	to    string
	upper bool // written in upper-case bech32 in the params (the same account)
}
type c12SetExecs struct{ to []string }
type c12SetInfo struct{ client string }
type c12Plan struct{ execs []string }

func (y *c12L2Sys) Root() *c12L2State {
	w := world.NewL2(world.L2Options{
		// the admins hold funds, so that a foreign-signed inner message (a bank send out of the admin's
		// account) would really succeed if the signer rule let it through
		Accounts: map[string]sdk.Coins{"admin": sdk.NewCoins(sdk.NewInt64Coin("umin", 10)), "admin2": sdk.NewCoins(sdk.NewInt64Coin("umin", 10)),
			"e1": nil, "e2": nil, "e3": nil, "stranger": nil, "o1": nil, "o2": nil, "o3": nil, "alice": nil},
		Executors:  []string{"e1"},
		Validators: [][2]string{{"o1", "k1"}},
		Params:     func(p *opchildtypes.Params) { p.MaxValidators = 5 },
	})
	// fee collector holds something to spend
	c := sdk.NewCoins(sdk.NewInt64Coin("umin", 10))
	if err := w.BK.MintCoins(w.Ctx, authtypes.Minter, c); err != nil {
		panic(err)
	}
	if err := w.BK.SendCoinsFromModuleToModule(w.Ctx, authtypes.Minter, authtypes.FeeCollectorName, c); err != nil {
		panic(err)
	}
	// currency pairs for the oracle-update probes
	w.OK.InitGenesis(w.Ctx, oracletypes.GenesisState{CurrencyPairGenesis: []oracletypes.CurrencyPairGenesis{}})
	for _, p := range c15Pairs {
		cp, err := connecttypes.CurrencyPairFromString(p)
		if err != nil {
			panic(err)
		}
		if err := w.OK.CreateCurrencyPair(w.Ctx, cp); err != nil {
			panic(err)
		}
	}
	// one deposit is already processed, so that a replay of a stale sequence can be offered by every signer
	first, _, _ := c06Msg(1, "e1", 0)
	if r := w.Deliver(w.Ctx, first); !r.OK() {
		panic(r.Err)
	}
	return &c12L2State{ctx: w.Ctx, w: w, admin: "admin", execs: []string{"e1"}}
}

func (y *c12L2Sys) Digest(s *c12L2State) [32]byte {
	info := "none"
	if s.info != nil {
		info = s.info.L1ClientId + "|" + fmt.Sprint(s.info.BridgeConfig.OracleEnabled)
	}
	return s.w.Digest(s.ctx, []byte(fmt.Sprint(s.admin, s.execs, info, s.planned)))
}

func (s *c12L2State) addr(name string) string {
	if name == "authority" {
		return s.w.Authority
	}
	return world.Addr(name).String()
}

func (s *c12L2State) isExec(name string) bool {
	for _, e := range s.execs {
		if e == name {
			return true
		}
	}
	return false
}

func (y *c12L2Sys) Letters(s *c12L2State) []engine.Letter {
	ls := []engine.Letter{
		{Name: "SetAdmin(admin2)", Data: c12SetAdmin{"admin2", false}},
		{Name: "SetAdmin(admin)", Data: c12SetAdmin{"admin", false}},
		{Name: "SetAdmin(ADMIN2-IN-UPPER-CASE)", Data: c12SetAdmin{"admin2", true}},
		{Name: "SetExecutors(e1)", Data: c12SetExecs{[]string{"e1"}}},
		{Name: "SetExecutors(e2)", Data: c12SetExecs{[]string{"e2"}}},
		{Name: "SetExecutors(e1,e2)", Data: c12SetExecs{[]string{"e1", "e2"}}},
		{Name: "SetExecutors(e2,e1)", Data: c12SetExecs{[]string{"e2", "e1"}}}, // the same two, listed the other way round (one of the two orders is not sorted)
		{Name: "SetExecutors()", Data: c12SetExecs{nil}},                       // every executor is revoked: nobody holds the role
	}
	if len(s.execs) > 0 { // sent by a current executor
		ls = append(ls, engine.Letter{Name: "SetBridgeInfo(client=\"\")", Data: c12SetInfo{""}}, engine.Letter{Name: "SetBridgeInfo(client=07-tendermint-0)", Data: c12SetInfo{"07-tendermint-0"}})
	}
	if !s.planned {
		// the plan's list is shorter, longer or as long as the current one, and ends differently
		ls = append(ls, engine.Letter{Name: "ExecutorChangePlanBlock(execs=[e2])", Data: c12Plan{[]string{"e2"}}})
		ls = append(ls, engine.Letter{Name: "ExecutorChangePlanBlock(execs=[e3])", Data: c12Plan{[]string{"e3"}}})
		ls = append(ls, engine.Letter{Name: "ExecutorChangePlanBlock(execs=[e2,e3])", Data: c12Plan{[]string{"e2", "e3"}}})
	}
	return ls
}

// l1Addr spells an account the way the L1 chain does: with L1's own bech32 prefix, which the L2's
// address codec cannot decode (the bridge config an L2 stores is about L1 accounts).
func l1Addr(name string) string {
	a, err := bech32.ConvertAndEncode("init", world.Addr(name))
	if err != nil {
		panic(err)
	}
	return a
}

func l1Bridge(id uint64) string {
	a, err := bech32.ConvertAndEncode("init", ophosttypes.BridgeAddress(id))
	if err != nil {
		panic(err)
	}
	return a
}

func c12Info(client string) opchildtypes.BridgeInfo {
	cfg := world.BridgeConfig("proposer", "challenger", 10*time.Second)
	cfg.Proposer, cfg.Challenger, cfg.BatchInfo.Submitter = l1Addr("proposer"), l1Addr("challenger"), l1Addr("submitter")
	cfg.OracleEnabled = true
	// the bridge address is an L1 address: spelled with L1's prefix, which the L2's own codec cannot decode
	return opchildtypes.BridgeInfo{BridgeId: 1, BridgeAddr: l1Bridge(1), L1ChainId: "l1-verif", L1ClientId: client, BridgeConfig: cfg}
}

func (s *c12L2State) anExecutor() string {
	if len(s.execs) == 0 {
		return ""
	}
	return s.execs[0]
}

func (y *c12L2Sys) Step(s *c12L2State, l engine.Letter) (*c12L2State, string, *engine.Violation) {
	ctx, _ := s.ctx.CacheContext()
	c := &c12L2State{ctx: ctx, w: s.w, admin: s.admin, execs: s.execs, info: s.info, planned: s.planned}
	switch d := l.Data.(type) {
	case c12SetAdmin, c12SetExecs:
		p, err := s.w.K.GetParams(ctx)
		if err != nil {
			panic(err)
		}
		if a, ok := d.(c12SetAdmin); ok {
			p.Admin = s.addr(a.to)
			if a.upper {
				p.Admin = strings.ToUpper(p.Admin)
			}
			c.admin = a.to
		} else {
			e := d.(c12SetExecs)
			p.BridgeExecutors = nil
			for _, n := range e.to {
				p.BridgeExecutors = append(p.BridgeExecutors, s.addr(n))
			}
			c.execs = e.to
		}
		msg, _ := opchildtypes.NewMsgExecuteMessages(s.addr(s.admin), []sdk.Msg{opchildtypes.NewMsgUpdateParams(s.w.Authority, &p)})
		res := s.w.Deliver(ctx, msg)
		if !res.OK() {
			return c, "rejected", viol("current-holder-may-act", "%s by the current admin %s failed: %v", l.Name, s.admin, res.Err)
		}
		return c, "accepted", nil
	case c12SetInfo:
		ex := s.anExecutor()
		res := s.w.Deliver(ctx, opchildtypes.NewMsgSetBridgeInfo(s.addr(ex), c12Info(d.client)))
		allowed := s.info == nil || s.info.L1ClientId == "" || s.info.L1ClientId == d.client
		if res.OK() != allowed {
			return c, "x", viol("bridge-binding-cannot-be-repointed", "%s with stored client id %v: accepted=%v, expected %v (err=%v)", l.Name, s.info, res.OK(), allowed, res.Err)
		}
		if res.OK() {
			i := c12Info(d.client)
			c.info = &i
			if d.client != "" {
				// the L1 light client reports the host validator set (what the IBC hook would do)
				if err := s.w.K.UpdateHostValidatorSet(ctx, d.client, 10, c15Sets["V(1,1,1)"].proto()); err != nil {
					return c, "accepted", viol("harness-expectation", "UpdateHostValidatorSet: %v", err)
				}
			}
			return c, "accepted", nil
		}
		return c, "rejected", nil
	case c12Plan:
		// the chain is in use: the current executor relayed (a deposit L2 had already seen) before the
		// block that executes the plan ends
		if ex := s.anExecutor(); ex != "" {
			if next, err := s.w.K.GetNextL1Sequence(ctx); err == nil && next > 1 {
				stale, _, _ := c06Msg(1, "e1", 0)
				stale.Sender, stale.Sequence = s.addr(ex), next-1
				wctx, _ := ctx.CacheContext()
				s.w.Deliver(wctx, stale)
			} else {
				wctx, _ := ctx.CacheContext()
				s.w.Deliver(wctx, opchildtypes.NewMsgUpdateOracle(s.addr(ex), 5, []byte{1, 2, 3}))
			}
		}
		s.w.K.ExecutorChangePlans = map[uint64]opchildtypes.ExecutorChangePlan{}
		defer func() { s.w.K.ExecutorChangePlans = map[uint64]opchildtypes.ExecutorChangePlan{} }()
		var planExecs []string
		for _, e := range d.execs {
			planExecs = append(planExecs, s.addr(e))
		}
		if err := s.w.K.RegisterExecutorChangePlan(1, uint64(ctx.BlockHeight()), valOf("o2"), "m", pubKeyJSON(s.w, "k2"), "i", planExecs); err != nil {
			return c, "rejected", viol("harness-expectation", "plan registration failed: %v", err)
		}
		if _, err := opchild.EndBlocker(ctx, s.w.K); err != nil {
			return c, "rejected", viol("harness-expectation", "EndBlocker failed: %v", err)
		}
		c.ctx = ctx.WithBlockHeight(ctx.BlockHeight() + 1)
		c.execs = append([]string{}, d.execs...)
		c.planned = true
		return c, "executed", nil
	}
	panic("unknown letter")
}

type c12Pr struct {
	n   string
	m   sdk.Msg
	ok  bool
	cls bool
}

// oracleProbe: with a bound L1 client and a recorded host validator set the update carries a fully
// signed commit (so an executor must succeed); otherwise only the authorization class is probed.
func (y *c12L2Sys) oracleProbe(s *c12L2State, sender string, isExec bool) c12Pr {
	if s.info == nil || s.info.L1ClientId == "" {
		return c12Pr{"UpdateOracle", opchildtypes.NewMsgUpdateOracle(sender, 5, []byte{1, 2, 3}), isExec, true}
	}
	cs := &c15State{ctx: s.ctx, w: s.w, set: "V(1,1,1)", hostH: 10, flagOn: true}
	votes := []c15Vote{{"hv1", shPriceP}, {"hv2", shPriceP}, {"hv3", shPriceQ}}
	data, _ := y.votes.build(cs, votes, 11, 5_000_000_000)
	return c12Pr{"UpdateOracle(signed)", opchildtypes.NewMsgUpdateOracle(sender, 11, data), isExec, false}
}

func (y *c12L2Sys) Check(s *c12L2State) *engine.Violation {
	w := s.w
	p, err := w.K.GetParams(s.ctx)
	if err != nil {
		panic(err)
	}
	next, _ := w.K.GetNextL1Sequence(s.ctx)
	run := func(name string, msg sdk.Msg, signer string, allowed bool, onlyAuthClass bool) *engine.Violation {
		y.probes.Add(1)
		signers, _, err := w.Enc.Marshaler.GetMsgV1Signers(msg)
		wantAddr, _ := w.AK.AddressCodec().StringToBytes(s.addr(signer))
		if err != nil || len(signers) != 1 || !bytes.Equal(signers[0], wantAddr) {
			return viol("declared-signer-is-the-checked-account", "%s: the signer the ante handler verifies (%x, err=%v) is not the account the handler authorises", name, signers, err)
		}
		ctx, _ := s.ctx.CacheContext()
		before := w.Digest(ctx)
		res := w.Deliver(ctx, msg)
		if res.Panicked {
			return viol("handler-panic", "%s panicked: %s", name, res.PanicVal)
		}
		tag := strings.SplitN(name, "(", 2)[0]
		if allowed {
			y.allow.Add(1)
			if onlyAuthClass {
				if res.Err != nil && errors.Is(res.Err, sdkerrors.ErrUnauthorized) {
					return tagged(viol("current-holder-may-act", "%s: a listed executor was refused as unauthorised: %v", name, res.Err), "msg", tag)
				}
				return nil
			}
			if !res.OK() {
				return tagged(viol("current-holder-may-act", "%s is allowed (admin=%s executors=%v) but failed: %v", name, s.admin, s.execs, res.Err), "msg", tag)
			}
			return nil
		}
		y.deny.Add(1)
		if res.OK() {
			return tagged(viol("permissioned-message-needs-role", "%s succeeded although the signer holds no allowed role (admin=%s executors=%v)", name, s.admin, s.execs), "msg", tag)
		}
		if w.Digest(ctx) != before {
			return viol("rejected-message-has-no-effect", "%s was rejected but changed state", name)
		}
		return nil
	}
	// Two passes. The first runs only the executor-guarded messages, for every signer, before anything
	// of this Check has written the parameters (on a branch or not): what the guard answers in the
	// state exactly as the chain's last transition left it, in the store and in the keeper's memory.
	for pass := 0; pass < 2; pass++ {
		for _, sg := range c12L2Signers {
			a := s.addr(sg)
			isAuth, isAdmin, isExec := sg == "authority", sg == s.admin, s.isExec(sg)
			pp := p
			em, _ := opchildtypes.NewMsgExecuteMessages(a, []sdk.Msg{opchildtypes.NewMsgUpdateParams(w.Authority, &pp)})
			addv, _ := opchildtypes.NewMsgAddValidator("m", a, valOf("o3"), world.EdKey("k3").PubKey())
			existing := valOf("o1")
			if vals, err := w.K.GetAllValidators(s.ctx); err == nil && len(vals) > 0 {
				existing = vals[0].OperatorAddress
			}
			remv, _ := opchildtypes.NewMsgRemoveValidator(a, existing)
			info := c12Info("")
			if s.info != nil {
				info = *s.info
			}
			dep, _, _ := c06Msg(1, "e1", 0)
			dep.Sender = a
			dep.Sequence = next
			stale, _, _ := c06Msg(1, "e1", 0)
			stale.Sender = a
			stale.Sequence = next - 1 // already processed: a no-op for an executor, still unauthorised for anyone else
			for _, q := range []c12Pr{
				{"ExecuteMessages", em, isAdmin, false},
				{"AddValidator", addv, isAuth, false},
				{"RemoveValidator", remv, isAuth, false},
				{"UpdateParams", opchildtypes.NewMsgUpdateParams(a, &pp), isAuth, false},
				{"SpendFeePool", &opchildtypes.MsgSpendFeePool{Authority: a, Recipient: s.addr("stranger"), Amount: sdk.NewCoins(sdk.NewInt64Coin("umin", 1))}, isAuth, false},
				{"SetBridgeInfo", opchildtypes.NewMsgSetBridgeInfo(a, info), isExec, false},
				{"FinalizeTokenDeposit", dep, isExec, false},
				{"FinalizeTokenDeposit(stale sequence)", stale, isExec, false},
				y.oracleProbe(s, a, isExec),
			} {
				if guarded := q.n == "SetBridgeInfo" || strings.HasPrefix(q.n, "FinalizeTokenDeposit") || strings.HasPrefix(q.n, "UpdateOracle"); guarded != (pass == 0) {
					continue
				}
				if v := run(fmt.Sprintf("%s(by=%s)", q.n, sg), q.m, sg, q.ok, q.cls); v != nil {
					return v
				}
			}
		}
	}
	// batched execution: all-or-nothing, every inner message's sole signer is the module authority
	good := p
	good.HookMaxGas = p.HookMaxGas + 1
	goodMsg := opchildtypes.NewMsgUpdateParams(w.Authority, &good)
	badSigner := banktypes.NewMsgSend(world.Addr(s.admin), world.Addr("stranger"), sdk.NewCoins(sdk.NewInt64Coin("umin", 1)))
	failing, _ := opchildtypes.NewMsgRemoveValidator(w.Authority, valOf("o3"))
	for _, bt := range []struct {
		name string
		msgs []sdk.Msg
		ok   bool
	}{
		{"[good]", []sdk.Msg{goodMsg}, true},
		{"[good,bad-signer]", []sdk.Msg{goodMsg, badSigner}, false},
		{"[good,failing]", []sdk.Msg{goodMsg, failing}, false},
		{"[bad-signer,good]", []sdk.Msg{badSigner, goodMsg}, false},
		{"[good,good,bad-signer]", []sdk.Msg{goodMsg, goodMsg, badSigner}, false},
		{"[good,bad-signer,good]", []sdk.Msg{goodMsg, badSigner, goodMsg}, false},
		{"[bad-signer]", []sdk.Msg{badSigner}, false},
		{"[failing,good]", []sdk.Msg{failing, goodMsg}, false},
	} {
		y.probes.Add(1)
		msg, _ := opchildtypes.NewMsgExecuteMessages(s.addr(s.admin), bt.msgs)
		ctx, _ := s.ctx.CacheContext()
		before := w.Digest(ctx)
		res := w.Deliver(ctx, msg)
		name := "ExecuteMessages" + bt.name
		if res.OK() != bt.ok {
			return tagged(viol("batched-execution-is-all-or-nothing", "%s by the admin: accepted=%v, expected %v (err=%v)", name, res.OK(), bt.ok, res.Err), "batch", bt.name)
		}
		if !res.OK() && w.Digest(ctx) != before {
			return tagged(viol("batched-execution-is-all-or-nothing", "%s failed but left a trace", name), "batch", bt.name)
		}
		if res.OK() {
			np, _ := w.K.GetParams(ctx)
			if np.HookMaxGas != good.HookMaxGas {
				return viol("batched-execution-is-all-or-nothing", "%s succeeded without effect", name)
			}
		}
	}
	// the binding to the bridge can never be re-pointed
	if s.info != nil && len(s.execs) > 0 {
		ex := s.addr(s.execs[0])
		mut := []struct {
			name string
			f    func(i *opchildtypes.BridgeInfo)
			ok   bool
		}{
			{"same", func(i *opchildtypes.BridgeInfo) {}, true},
			{"bridge-id", func(i *opchildtypes.BridgeInfo) { i.BridgeId = 2 }, false},
			{"bridge-addr", func(i *opchildtypes.BridgeInfo) { i.BridgeAddr = l1Bridge(2) }, false},
			{"bridge-addr-in-l2-spelling-of-another-bridge", func(i *opchildtypes.BridgeInfo) { i.BridgeAddr = sdk.AccAddress(ophosttypes.BridgeAddress(2)).String() }, false},
			{"bridge-addr-garbage", func(i *opchildtypes.BridgeInfo) { i.BridgeAddr = "not an address at all" }, false},
			{"l1-chain-id", func(i *opchildtypes.BridgeInfo) { i.L1ChainId = "other-chain" }, false},
			{"l1-client-id", func(i *opchildtypes.BridgeInfo) { i.L1ClientId = "07-tendermint-9" }, s.info.L1ClientId == ""},
			{"config-only", func(i *opchildtypes.BridgeInfo) { i.BridgeConfig.OracleEnabled = !i.BridgeConfig.OracleEnabled }, true},
		}
		for _, m := range mut {
			y.probes.Add(1)
			i := *s.info
			m.f(&i)
			ctx, _ := s.ctx.CacheContext()
			before := w.Digest(ctx)
			res := w.Deliver(ctx, opchildtypes.NewMsgSetBridgeInfo(ex, i))
			if res.OK() != m.ok {
				return tagged(viol("bridge-binding-cannot-be-repointed", "SetBridgeInfo changing %s (stored client id %q): accepted=%v, expected %v (err=%v)", m.name, s.info.L1ClientId, res.OK(), m.ok, res.Err), "field", m.name)
			}
			if !res.OK() && w.Digest(ctx) != before {
				return viol("rejected-message-has-no-effect", "rejected SetBridgeInfo changed state")
			}
		}
	}
	return nil
}

func init() {
	register(&Check{ID: "C12", Level: "model_checking",
		Run: func(rc *engine.RunCtx) *engine.Result {
			res := engine.NewResult()
			y1 := newC12L1Sys()
			rep, err := engine.Explore[*c12L1State](y1, opts(rc, pick(rc, 4, 5)))
			if err != nil {
				res.HarnessErr = err
				return res
			}
			res.Absorb("l1", rep)
			y2 := &c12L2Sys{votes: newC15Sys("V(1,1,1)", 0)}
			rep2, err := engine.Explore[*c12L2State](y2, opts(rc, pick(rc, 5, 6)))
			if err != nil {
				res.HarnessErr = err
				return res
			}
			res.Absorb("l2", rep2)
			res.Coverage["matrix"] = map[string]any{
				"l1_probes": y1.probes.Load(), "l1_allowed_cells": y1.allow.Load(), "l1_denied_cells": y1.deny.Load(),
				"l2_probes": y2.probes.Load(), "l2_allowed_cells": y2.allow.Load(), "l2_denied_cells": y2.deny.Load()}
			res.Coverage["alphabet"] = "L1 role rotations: UpdateProposer/UpdateChallenger(b∈{1,2}, to∈{X,X2}, by∈{gov, current holder}); L2: SetAdmin, SetExecutors (both via ExecuteMessages by the current admin), SetBridgeInfo(client id \"\" | set), executor-change plan executed by the real EndBlocker; in every state the matrix (every message type × every signer incl. past holders, both bridges) plus batch and re-pointing probes"
			res.Coverage["oracle"] = "role table of the property statement evaluated on the model's current holders: allowed ⇒ succeeds (new holder immediately), not allowed ⇒ fails with unchanged digest; the signer read back with GetMsgV1Signers is the authorised account; ExecuteMessages all-or-nothing with authority-only inner signers; SetBridgeInfo: bridge id / address / L1 chain id immutable, L1 client id settable once"
			res.Assumptions = []string{"UpdateOracle carries a fully signed commit (executor must succeed) in every state where the L1 client id is bound and a host validator set is recorded; in the other states only its authorization class is probed"}
			res.Require(y1.allow.Load() > 100 && y1.deny.Load() > 100 && y2.allow.Load() > 100 && y2.deny.Load() > 100, "matrix is one-sided")
			return res
		},
		Replay: func(kind string, path []string) ([]string, *engine.Violation, error) {
			if kind == "l2" {
				return engine.Replay[*c12L2State](&c12L2Sys{votes: newC15Sys("V(1,1,1)", 0)}, path)
			}
			return engine.Replay[*c12L1State](newC12L1Sys(), path)
		},
	})
}
