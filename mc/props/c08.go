package props

import (
	"crypto/sha256"
	"encoding/hex"
	"fmt"
	"strconv"
	"strings"
	"sync/atomic"
	"time"

	"cosmossdk.io/math"
	sdk "github.com/cosmos/cosmos-sdk/types"
	authtypes "github.com/cosmos/cosmos-sdk/x/auth/types"
	banktypes "github.com/cosmos/cosmos-sdk/x/bank/types"

	opchildtypes "github.com/initia-labs/OPinit/x/opchild/types"
	ophosttypes "github.com/initia-labs/OPinit/x/ophost/types"

	"verifmc/engine"
	"verifmc/ref"
	"verifmc/world"
)

// C08 — end-to-end solvency: L1 escrow always backs L2 supply plus in-flight value.
// Two chains in one process, connected only by parsed events (a faithful relayer).

const c08Period = 10 * time.Second

var c08Denoms = []string{"uxx", "uyy"}

type c08Dep struct { // parsed from the L1 event
	Seq            uint64
	From, To       string
	L1Denom, L2Den string
	Amount         string
	Data           []byte
	Height         uint64
}

type c08Wd struct {
	W      wd
	Output int // index into outs (0 = uncovered), 1-based
	Leaf   int
	Paid   bool
}

type c08Out struct {
	Tree *wtree
	T    time.Time
}

type c08State struct {
	c1, c2  sdk.Context
	w1      *world.L1
	w2      *world.L2
	deps    []c08Dep // all deposits emitted on L1, in order
	relayed int      // deposits [0,relayed) were finalized on L2
	wds     []c08Wd
	outs    []c08Out
	l2blk   uint64
}

type c08Sys struct {
	drains   atomic.Int64
	drainTx  atomic.Int64
	noDrain  bool
	initHold map[string]int64
}

type c08L1Deposit struct {
	to    string
	amt   int64
	denom string
	data  []byte
}
type c08L2Send struct{}
type c08L2Withdraw struct {
	upperTo bool // the L1 recipient written in upper-case bech32 (valid, unusual)
	who     string
	denom   string
}
type c08Relay struct{ dup bool }
type c08Propose struct{}
type c08Challenge struct{}
type c08Advance struct{}
type c08Restart struct{ chain int }
type c08Claim struct {
	i     int
	again bool
}

func (y *c08Sys) Root() *c08State {
	w1 := newL1TwoBridges(c08Period)
	w2 := world.NewL2(world.L2Options{Accounts: map[string]sdk.Coins{"alice": nil, "bob": nil, "executor": nil, "admin": nil},
		// two executors are listed; the one that relays is the first, and the list is not sorted
		Executors: world.ExecutorsWithSpare("executor")})
	return &c08State{c1: w1.Ctx, c2: w2.Ctx, w1: w1, w2: w2, l2blk: 1}
}

func (s *c08State) modelBytes() []byte {
	h := sha256.New()
	fmt.Fprintf(h, "%d|%d|", len(s.deps), s.relayed)
	for _, d := range s.deps {
		fmt.Fprintf(h, "%d;%q;%q;%s;%s;%s;%x;%d|", d.Seq, d.From, d.To, d.L1Denom, d.L2Den, d.Amount, d.Data, d.Height)
	}
	for _, w := range s.wds {
		fmt.Fprintf(h, "%v;%d;%d;%v|", w.W, w.Output, w.Leaf, w.Paid)
	}
	for _, o := range s.outs {
		fmt.Fprintf(h, "%x;%d|", o.Tree.OutputRoot, o.T.UnixNano())
	}
	return h.Sum(nil)
}

func (y *c08Sys) Digest(s *c08State) [32]byte {
	d1 := s.w1.Digest(s.c1)
	d2 := s.w2.Digest(s.c2)
	return sha256.Sum256(append(append(d1[:], d2[:]...), s.modelBytes()...))
}

func l2of(d string) string { return ref.L2Denom(1, d) }

func (y *c08Sys) Letters(s *c08State) []engine.Letter {
	alice := world.Addr("alice").String()
	ls := []engine.Letter{
		{Name: "L1Deposit(to=alice,1uxx)", Data: c08L1Deposit{alice, 1, "uxx", nil}},
		{Name: "L1Deposit(to=alice,2uyy)", Data: c08L1Deposit{alice, 2, "uyy", nil}},
		{Name: "L1Deposit(to=garbage,1uxx)", Data: c08L1Deposit{"garbage", 1, "uxx", nil}},
		{Name: "L1Deposit(to=alice,1uxx,data=undecodable)", Data: c08L1Deposit{alice, 1, "uxx", []byte{0xde, 0xad}}},
		{Name: "L2Send(alice->bob,1l2x)", Data: c08L2Send{}},
	}
	// a deposit whose hook is a correctly signed tx of the recipient that immediately withdraws it again
	// (two messages, the withdrawal first: every hook message's events have to reach the relayer)
	ls = append(ls, engine.Letter{Name: "L1Deposit(to=alice,2uxx,data=hook[alice withdraws 1l2x; alice sends 1l2x to bob])", Data: c08L1Deposit{alice, 2, "uxx", []byte("HOOK:withdraw")}})
	// …and one whose second message fails (she never holds that much): nothing of the hook may stay, the
	// deposit is refunded — also when she already holds enough from earlier deposits for the first message
	// (offered once she holds some: that is the case in which a half-applied hook would burn her own coins)
	if s.w2.BK.GetBalance(s.c2, world.Addr("alice"), l2of("uxx")).Amount.IsPositive() {
		ls = append(ls, engine.Letter{Name: "L1Deposit(to=alice,2uxx,data=hook[alice withdraws 1l2x; alice sends 1000000l2x to bob])", Data: c08L1Deposit{alice, 2, "uxx", []byte("HOOK:withdraw-then-fail")}})
	}
	for _, who := range []string{"alice", "bob"} {
		ls = append(ls, engine.Letter{Name: fmt.Sprintf("L2Withdraw(%s,1l2x)", who), Data: c08L2Withdraw{who: who, denom: "uxx"}})
	}
	ls = append(ls, engine.Letter{Name: "L2Withdraw(alice,1l2y)", Data: c08L2Withdraw{who: "alice", denom: "uyy"}})
	ls = append(ls, engine.Letter{Name: "L2Withdraw(alice,1l2x,to=ALICE-IN-UPPER-CASE)", Data: c08L2Withdraw{who: "alice", denom: "uxx", upperTo: true}})
	if s.relayed < len(s.deps) {
		ls = append(ls, engine.Letter{Name: "RelayNextDeposit", Data: c08Relay{false}})
	}
	if s.relayed > 0 {
		ls = append(ls, engine.Letter{Name: "RelayDuplicate", Data: c08Relay{true}})
	}
	uncovered := 0
	for _, w := range s.wds {
		if w.Output == 0 {
			uncovered++
		}
	}
	if uncovered > 0 {
		ls = append(ls, engine.Letter{Name: "ProposeOutput", Data: c08Propose{}})
	}
	if len(s.outs) > 0 {
		ls = append(ls, engine.Letter{Name: "Challenge(deleteNewest)", Data: c08Challenge{}})
	}
	ls = append(ls, engine.Letter{Name: "Advance(10s)", Data: c08Advance{}})
	ls = append(ls, engine.Letter{Name: "RestartL1ViaGenesis", Data: c08Restart{1}}, engine.Letter{Name: "RestartL2ViaGenesis", Data: c08Restart{2}})
	n, again := 0, false
	for i, w := range s.wds {
		if w.Output > 0 && !w.Paid && n < 3 {
			ls = append(ls, engine.Letter{Name: fmt.Sprintf("Claim(wd#%d)", w.W.Seq), Data: c08Claim{i, false}})
			n++
		}
		if w.Paid && !again {
			ls = append(ls, engine.Letter{Name: fmt.Sprintf("ClaimAgain(wd#%d)", w.W.Seq), Data: c08Claim{i, true}})
			again = true
		}
	}
	return ls
}

func (s *c08State) branch() *c08State {
	c1, _ := s.c1.CacheContext()
	c2, _ := s.c2.CacheContext()
	return &c08State{c1: c1, c2: c2, w1: s.w1, w2: s.w2, deps: s.deps, relayed: s.relayed, wds: s.wds, outs: s.outs, l2blk: s.l2blk}
}

// parseWithdrawals appends the withdrawals announced by L2 events to the relayer's list.
func (c *c08State) parseWithdrawals(evs sdk.Events) *engine.Violation {
	for _, e := range world.EventsOfType(evs, "initiate_token_withdrawal") {
		from, _ := world.Attr(e, "from")
		to, _ := world.Attr(e, "to")
		base, _ := world.Attr(e, "base_denom")
		amt, _ := world.Attr(e, "amount")
		seqs, _ := world.Attr(e, "l2_sequence")
		seq, err1 := strconv.ParseUint(seqs, 10, 64)
		a, err2 := strconv.ParseUint(amt, 10, 64)
		if err1 != nil || err2 != nil {
			return viol("withdrawal-event-parsable", "withdrawal event with seq=%q amount=%q", seqs, amt)
		}
		c.wds = append(append([]c08Wd{}, c.wds...), c08Wd{W: wd{Bridge: 1, Seq: seq, From: from, To: to, Denom: base, Amount: a}})
	}
	return nil
}

func (y *c08Sys) Step(s *c08State, l engine.Letter) (*c08State, string, *engine.Violation) {
	c := s.branch()
	out, v := y.apply(s, c, l.Data)
	return c, out, v
}

func (y *c08Sys) apply(s, c *c08State, data any) (string, *engine.Violation) {
	alice := world.Addr("alice")
	switch d := data.(type) {
	case c08Advance:
		c.c1 = world.Advance(c.c1, c08Period)
		c.c2 = world.Advance(c.c2, c08Period)
		return "ok", nil
	case c08Restart:
		var err error
		if d.chain == 1 {
			err = s.w1.RestartViaGenesis(c.c1)
		} else {
			err = s.w2.RestartViaGenesis(c.c2)
		}
		if err != nil {
			return "error", viol("bridge-state-survives-a-restart", "chain %d: export / validate / import of the module genesis failed: %v", d.chain, err)
		}
		return "ok", nil
	case c08L1Deposit:
		if string(d.data) == "HOOK:withdraw" || string(d.data) == "HOOK:withdraw-then-fail" {
			second := int64(1)
			if string(d.data) == "HOOK:withdraw-then-fail" {
				second = 1_000_000
			}
			// signed with the account number / sequence alice has on L2 right now (a later hook-bearing
			// relay may make it stale: then the hook fails and the deposit is refunded, which is fine)
			acc := s.w2.AK.GetAccount(c.c2, alice)
			wmsg := opchildtypes.NewMsgInitiateTokenWithdrawal(alice.String(), alice.String(), sdk.NewInt64Coin(l2of("uxx"), 1))
			key := world.SecpKey("alice")
			smsg := banktypes.NewMsgSend(alice, world.Addr("bob"), sdk.NewCoins(sdk.NewInt64Coin(l2of("uxx"), second)))
			d.data = signHookTx(s.w2, []sdk.Msg{wmsg, smsg}, key, key.PubKey(), acc.GetAccountNumber(), acc.GetSequence(), c.c2.ChainID())
		}
		res := s.w1.Deliver(c.c1, ophosttypes.NewMsgInitiateTokenDeposit(alice.String(), 1, d.to, world.Coin(d.denom, d.amt), d.data))
		if !res.OK() {
			return "rejected", nil
		}
		evs := world.EventsOfType(res.Events, "initiate_token_deposit")
		if len(evs) != 1 {
			return "accepted", viol("deposit-event-emitted", "%d deposit events", len(evs))
		}
		e := evs[0]
		g := func(k string) string { v, _ := world.Attr(e, k); return v }
		seq, _ := strconv.ParseUint(g("l1_sequence"), 10, 64)
		data, _ := hex.DecodeString(g("data"))
		c.deps = append(append([]c08Dep{}, s.deps...), c08Dep{Seq: seq, From: g("from"), To: g("to"), L1Denom: g("l1_denom"), L2Den: g("l2_denom"), Amount: g("amount"), Data: data, Height: uint64(c.c1.BlockHeight())})
		return "accepted", nil
	case c08L2Send:
		res := s.w2.Deliver(c.c2, banktypes.NewMsgSend(alice, world.Addr("bob"), sdk.NewCoins(sdk.NewInt64Coin(l2of("uxx"), 1))))
		if !res.OK() {
			return "rejected", nil
		}
		return "ok", nil
	case c08L2Withdraw:
		who := world.Addr(d.who).String()
		to := who
		if d.upperTo {
			to = strings.ToUpper(who)
		}
		res := s.w2.Deliver(c.c2, opchildtypes.NewMsgInitiateTokenWithdrawal(who, to, sdk.NewInt64Coin(l2of(d.denom), 1)))
		if !res.OK() {
			return "rejected", nil
		}
		if v := c.parseWithdrawals(res.Events); v != nil {
			return "accepted", v
		}
		return "accepted", nil
	case c08Relay:
		i := s.relayed
		if d.dup {
			i = s.relayed - 1
		}
		dep := s.deps[i]
		amt, ok := math.NewIntFromString(dep.Amount)
		if !ok {
			return "error", viol("deposit-event-parsable", "amount %q", dep.Amount)
		}
		msg := opchildtypes.NewMsgFinalizeTokenDeposit(world.Addr("executor").String(), dep.From, dep.To, sdk.NewCoin(dep.L2Den, amt), dep.Seq, dep.Height, dep.L1Denom, dep.Data)
		res := s.w2.Deliver(c.c2, msg)
		if !res.OK() {
			return "error", tagged(viol("faithful-relay-is-accepted", "relay of deposit %d failed: %v", dep.Seq, res.Err), "dup", fmt.Sprint(d.dup))
		}
		r := res.Resp.(*opchildtypes.MsgFinalizeTokenDepositResponse)
		if d.dup {
			if r.Result != opchildtypes.NOOP {
				return "dup", viol("duplicate-relay-is-a-noop", "duplicate relay of deposit %d answered %s", dep.Seq, r.Result)
			}
			return "noop", nil
		}
		if r.Result != opchildtypes.SUCCESS {
			return "relay", viol("faithful-relay-is-accepted", "relay of deposit %d answered %s", dep.Seq, r.Result)
		}
		c.relayed = s.relayed + 1
		if v := c.parseWithdrawals(res.Events); v != nil {
			return "relayed", v
		}
		if len(c.wds) > len(s.wds) {
			return "relayed-refunded", nil
		}
		return "relayed-credited", nil
	case c08Propose:
		var ws []wd
		var idx []int
		for i, w := range s.wds {
			if w.Output == 0 {
				ws = append(ws, w.W)
				idx = append(idx, i)
			}
		}
		t := mkTree(fmt.Sprintf("out%d@%d", len(s.outs)+1, s.l2blk), ws, 1)
		res := s.w1.Deliver(c.c1, ophosttypes.NewMsgProposeOutput(world.Addr("proposer").String(), 1, uint64(len(s.outs))+1, s.l2blk, t.OutputRoot[:]))
		if !res.OK() {
			return "rejected", viol("faithful-proposal-is-accepted", "proposal failed: %v", res.Err)
		}
		c.l2blk = s.l2blk + 1
		c.outs = append(append([]c08Out{}, s.outs...), c08Out{t, c.c1.BlockTime()})
		nw := append([]c08Wd{}, s.wds...)
		for leaf, i := range idx {
			nw[i].Output = len(c.outs)
			nw[i].Leaf = leaf
		}
		c.wds = nw
		return "accepted", nil
	case c08Challenge:
		k := len(s.outs)
		final := !c.c1.BlockTime().Before(s.outs[k-1].T.Add(c08Period))
		res := s.w1.Deliver(c.c1, ophosttypes.NewMsgDeleteOutput(world.Addr("challenger").String(), 1, uint64(k)))
		if !res.OK() {
			if !final {
				return "rejected", viol("non-final-output-can-be-challenged", "delete of non-final output %d failed: %v", k, res.Err)
			}
			return "rejected-final", nil
		}
		nw := append([]c08Wd{}, s.wds...)
		for i := range nw {
			if nw[i].Output == k {
				if nw[i].Paid {
					return "accepted", viol("paid-withdrawal-output-was-final", "output %d deleted although withdrawal #%d was paid from it", k, nw[i].W.Seq)
				}
				nw[i].Output = 0
			}
		}
		c.wds = nw
		c.outs = append([]c08Out{}, s.outs[:k-1]...)
		return "accepted", nil
	case c08Claim:
		w := s.wds[d.i]
		o := s.outs[w.Output-1]
		msg := o.Tree.claim(w.Leaf, uint64(w.Output), "bob")
		res := s.w1.Deliver(c.c1, msg)
		final := !c.c1.BlockTime().Before(o.T.Add(c08Period))
		if d.again {
			if res.OK() {
				return "accepted", viol("every-claim-succeeds-exactly-once", "withdrawal #%d paid twice", w.W.Seq)
			}
			return "rejected-again", nil
		}
		if res.OK() {
			if !final {
				return "accepted", viol("claim-needs-final-output", "withdrawal #%d paid from a non-final output", w.W.Seq)
			}
			nw := append([]c08Wd{}, s.wds...)
			nw[d.i].Paid = true
			c.wds = nw
			return "accepted", nil
		}
		if final {
			return "rejected", tagged(viol("every-claim-succeeds-exactly-once", "claim of recorded withdrawal %s against final output %d failed: %v", w.W, w.Output, res.Err), "phase", "search")
		}
		return "rejected-not-final", nil
	}
	panic("unknown letter")
}

func (y *c08Sys) equation(s *c08State) *engine.Violation {
	for _, d := range c08Denoms {
		escrow := balanceOf(s.w1, s.c1, ref.BridgeAddress(1), d)
		supply := s.w2.BK.GetSupply(s.c2, l2of(d)).Amount.Int64()
		pend, unpaid := int64(0), int64(0)
		for _, dep := range s.deps[s.relayed:] {
			if dep.L1Denom == d {
				a, _ := strconv.ParseInt(dep.Amount, 10, 64)
				pend += a
			}
		}
		for _, w := range s.wds {
			if !w.Paid && w.W.Denom == d {
				unpaid += int64(w.W.Amount)
			}
		}
		if escrow != supply+pend+unpaid {
			return tagged(viol("escrow-backs-supply-plus-in-flight", "%s: escrow %d ≠ L2 supply %d + pending deposits %d + unpaid withdrawals %d", d, escrow, supply, pend, unpaid), "denom", d)
		}
	}
	if got := balanceOf(s.w1, s.c1, ref.BridgeAddress(2), "uxx") + balanceOf(s.w1, s.c1, ref.BridgeAddress(2), "uyy"); got != 0 {
		return viol("decoy-bridge-untouched", "decoy bridge 2 holds %d", got)
	}
	return nil
}

func (y *c08Sys) holdings(s *c08State) int64 {
	t := int64(0)
	for _, who := range []string{"alice", "bob"} {
		for _, d := range c08Denoms {
			t += balanceOf(s.w1, s.c1, world.Addr(who), d)
			t += s.w2.BK.GetBalance(s.c2, world.Addr(who), l2of(d)).Amount.Int64()
		}
	}
	return t
}

func (y *c08Sys) Check(s *c08State) *engine.Violation {
	if v := y.equation(s); v != nil {
		return v
	}
	// a balance can grow past one deposit (several deposits, transfers); a withdrawal of more than the
	// 64-bit leaf format can carry must be refused on L2, because L1 could never release it
	if alice := world.Addr("alice"); len(s.deps) > 0 && s.relayed > 0 && s.w2.BK.GetBalance(s.c2, alice, l2of("uxx")).IsPositive() {
		for _, extra := range []int64{0, 9} {
			amt := math.NewIntFromUint64(1 << 63).MulRaw(2).AddRaw(extra)
			c2, _ := s.c2.CacheContext()
			top := sdk.NewCoins(sdk.NewCoin(l2of("uxx"), amt))
			if err := s.w2.BK.MintCoins(c2, authtypes.Minter, top); err != nil {
				panic(err)
			}
			if err := s.w2.BK.SendCoinsFromModuleToAccount(c2, authtypes.Minter, alice, top); err != nil {
				panic(err)
			}
			if res := s.w2.Deliver(c2, opchildtypes.NewMsgInitiateTokenWithdrawal(alice.String(), alice.String(), sdk.NewCoin(l2of("uxx"), amt))); res.OK() {
				return tagged(viol("escrow-backs-supply-plus-in-flight", "L2 accepted (burnt and recorded) a withdrawal of 2^64+%d: the 64-bit leaf format cannot carry it, L1 can never release it", extra), "probe", "oversized-withdrawal")
			}
		}
	}
	if y.noDrain {
		return nil
	}
	return y.drain(s)
}

// drain: deterministic completion from s (relay all, propose, advance, claim all).
func (y *c08Sys) drain(s *c08State) *engine.Violation {
	y.drains.Add(1)
	cur := s.branch()
	step := func(data any) (string, *engine.Violation) {
		y.drainTx.Add(1)
		n := cur.branch()
		out, v := y.apply(cur, n, data)
		cur = n
		if v != nil {
			v.Clause = "drain/" + v.Clause
			v.Tags["phase"] = "drain"
		}
		return out, v
	}
	for cur.relayed < len(cur.deps) {
		if _, v := step(c08Relay{false}); v != nil {
			return v
		}
	}
	unc := false
	for _, w := range cur.wds {
		if w.Output == 0 {
			unc = true
		}
	}
	if unc {
		if _, v := step(c08Propose{}); v != nil {
			return v
		}
	}
	if _, v := step(c08Advance{}); v != nil {
		return v
	}
	for i := range cur.wds {
		if cur.wds[i].Paid {
			continue
		}
		out, v := step(c08Claim{i, false})
		if v != nil {
			return v
		}
		if out != "accepted" {
			return viol("drain/every-claim-succeeds-exactly-once", "claim of withdrawal #%d: %s", cur.wds[i].W.Seq, out)
		}
	}
	for i := range cur.wds {
		if _, v := step(c08Claim{i, true}); v != nil {
			return v
		}
	}
	if v := y.equation(cur); v != nil {
		v.Clause = "drain/" + v.Clause
		return v
	}
	for _, d := range c08Denoms {
		escrow := balanceOf(cur.w1, cur.c1, ref.BridgeAddress(1), d)
		supply := cur.w2.BK.GetSupply(cur.c2, l2of(d)).Amount.Int64()
		if escrow != supply {
			return viol("drain/escrow-equals-l2-supply", "%s: after draining escrow %d ≠ L2 supply %d", d, escrow, supply)
		}
	}
	if got := y.holdings(cur); got != y.initHold["total"] {
		return viol("drain/users-hold-what-they-started-with", "after draining users hold %d across both chains, started with %d", got, y.initHold["total"])
	}
	return nil
}

func newC08Sys(noDrain bool) *c08Sys {
	y := &c08Sys{noDrain: noDrain, initHold: map[string]int64{}}
	r := y.Root()
	y.initHold["total"] = y.holdings(r)
	return y
}

func init() {
	register(&Check{ID: "C08", Level: "model_checking",
		Run: func(rc *engine.RunCtx) *engine.Result {
			res := engine.NewResult()
			y := newC08Sys(false)
			rep, err := engine.Explore[*c08State](y, opts(rc, pick(rc, 6, 8)))
			if err != nil {
				res.HarnessErr = err
				return res
			}
			res.Absorb("c08", rep)
			res.Coverage["drains"] = y.drains.Load()
			res.Coverage["drain_transitions"] = y.drainTx.Load()
			res.Coverage["alphabet"] = "L1Deposit(alice; to∈{alice,garbage}; 1uxx|2uyy; data∈{∅, undecodable, a signed two-message hook tx in which the recipient withdraws half of the deposit again and sends the other half on}) ; L2Send; L2Withdraw(who∈{alice,bob}; l2x|l2y; one with the L1 recipient spelled in upper case); RelayNextDeposit; RelayDuplicate; ProposeOutput(tree of all uncovered recorded withdrawals, independent builder); Challenge(delete newest); Advance(period); RestartL1ViaGenesis; RestartL2ViaGenesis (module genesis exported, validated, re-imported into the emptied store); Claim(any covered unpaid); ClaimAgain(a paid one)"
			res.Coverage["oracle"] = "in every state and for both denoms: escrow_L1 = supply_L2 + pending deposits + recorded unpaid withdrawals (queues built from parsed events only); from every distinct state the deterministic drain (relay all, propose, advance, claim all) must make every claim succeed exactly once, a second claim fail, escrow = L2 supply and the users' combined holdings = initial holdings"
			res.Assumptions = []string{"faithful relayer; both chains run in one process and are connected only by parsed events"}
			for _, k := range []string{"RelayNextDeposit/relayed-credited", "RelayNextDeposit/relayed-refunded", "RelayDuplicate/noop", "ProposeOutput/accepted", "L2Withdraw/accepted"} {
				res.Require(res.OutcomeCount("c08", k) > 0, "outcome %s never occurred", k)
			}
			if rep.CompletedDepth >= 6 {
				res.Require(res.OutcomeCount("c08", "Claim/accepted") > 0, "no claim was ever accepted in the search")
			}
			res.Require(y.drains.Load() > 0, "no drain ran")
			return res
		},
		Replay: func(kind string, path []string) ([]string, *engine.Violation, error) {
			return engine.Replay[*c08State](newC08Sys(false), path)
		},
	})
}
