package props

import (
	"fmt"
	"strings"
	"time"

	sdk "github.com/cosmos/cosmos-sdk/types"

	ophosttypes "github.com/initia-labs/OPinit/x/ophost/types"

	"verifmc/engine"
	"verifmc/ref"
	"verifmc/world"
)

// C02 — a withdrawal is paid out at most once.

const c02Period = 10 * time.Second

type c02Out struct {
	Root string // tree name
	T    time.Time
}

type c02State struct {
	ctx   sdk.Context
	w     *world.L1
	outs  []c02Out
	paid  [3]bool
	fx    *c02Fixture
	setup string // non-empty: the fixture's own valid claim on bridge 2 was refused (reported by Check)
}

type c02Fixture struct {
	ws    [3]wd
	trees map[string]*wtree // "R12", "R123"; "Rbad" has no tree
	bad   [32]byte
	t2    *wtree // bridge 3's own tree: its single withdrawal is paid before the exploration starts
}

func newC02Fixture() *c02Fixture {
	bob := world.Addr("bob").String()
	fx := &c02Fixture{trees: map[string]*wtree{}}
	for i := 0; i < 3; i++ {
		fx.ws[i] = wd{Bridge: 1, Seq: uint64(i + 1), From: "l2user", To: bob, Denom: "uxx", Amount: uint64(i + 1)}
	}
	// the third withdrawal takes most of what the escrow holds (12): once it is paid the second one cannot be
	// paid any more (and the other way round) — a claim the escrow cannot pay must fail without a trace
	fx.ws[2].Amount = 11
	fx.trees["R12"] = mkTree("R12", fx.ws[:2], 0)
	fx.trees["R123"] = mkTree("R123", fx.ws[:3], 0)
	fx.bad = ref.Sum256([]byte("bad root"))
	other := world.Addr("challenger2").String() // an account the model of bridge 1 does not watch
	fx.t2 = mkTree("c02-b3", []wd{{Bridge: c02Neighbour, Seq: 1, From: "l2user", To: other, Denom: "uxx", Amount: 1}}, 0)
	return fx
}

type c02Sys struct{}

type c02Propose struct{ root string }
type c02Delete struct{ idx uint64 }
type c02Advance struct{ d time.Duration }

// c02Neighbour is the bridge with a paid withdrawal of its own; bridge 2, between it and the explored bridge 1, is idle.
const c02Neighbour = 3

type c02Restart struct{}
type c02NewBridge struct{}
type c02Config struct{ what string }
type c02Finalize struct {
	w     int
	idx   uint64
	proof string
	by    string
	upper bool // the recipient written in upper-case bech32: the same account, another string, hence a leaf no tree commits to
}

func (c02Sys) Root() *c02State {
	w := newL1TwoBridges(c02Period)
	// pre-fund the escrow of bridge 1 with twice the sum so a double spend is not masked
	res := w.Deliver(w.Ctx, ophosttypes.NewMsgInitiateTokenDeposit(world.Addr("alice").String(), 1, "l2addr", world.Coin("uxx", 12), nil))
	if !res.OK() {
		panic(res.Err)
	}
	// bridge 2 exists and stays idle; bridge 3 (not the next id after the explored bridge 1: whatever walks the
	// claim records bridge by bridge has an empty bridge in between) has a life of its own: an output, final by
	// now, and one paid withdrawal
	// ... under the shortest legal finalization period (1 ns): its output is final in the block that proposes it,
	// and the withdrawal is paid in that same block
	if res := w.Deliver(w.Ctx, ophosttypes.NewMsgCreateBridge(world.Addr("creator").String(), world.BridgeConfig("proposer", "challenger", time.Nanosecond))); !res.OK() {
		panic(res.Err)
	}
	fx := newC02Fixture()
	t2 := fx.t2
	ctx := w.Ctx
	for _, m := range []sdk.Msg{
		ophosttypes.NewMsgInitiateTokenDeposit(world.Addr("alice").String(), c02Neighbour, "l2addr", world.Coin("uxx", 5), nil),
		ophosttypes.NewMsgProposeOutput(world.Addr("proposer").String(), c02Neighbour, 1, 7, t2.OutputRoot[:]),
	} {
		if res := w.Deliver(ctx, m); !res.OK() {
			panic(res.Err)
		}
	}
	if res := w.Deliver(ctx, claimMsg(t2.Ws[0], t2.Tree.Proof(0), 1, "bob", t2.Version, t2.StorageRoot[:], t2.BlockHash)); !res.OK() {
		return &c02State{ctx: ctx, w: w, fx: fx, setup: res.Err.Error()}
	}
	return &c02State{ctx: ctx, w: w, fx: fx}
}

// the model is part of the state key: a change that turns an operation into a no-op on the stores must
// not make the successor look like an already visited state (its model differs, and Check has to see it)
func (c02Sys) Digest(s *c02State) [32]byte {
	return s.w.Digest(s.ctx, []byte(fmt.Sprint(s.outs, s.paid)))
}

func (c02Sys) Letters(s *c02State) []engine.Letter {
	var ls []engine.Letter
	for _, r := range []string{"R12", "R123", "Rbad"} {
		ls = append(ls, engine.Letter{Name: "Propose(" + r + ")", Data: c02Propose{r}})
	}
	for i := uint64(1); i <= 2; i++ {
		ls = append(ls, engine.Letter{Name: fmt.Sprintf("Delete(%d)", i), Data: c02Delete{i}})
	}
	ls = append(ls, engine.Letter{Name: "Advance(4s)", Data: c02Advance{4 * time.Second}})
	ls = append(ls, engine.Letter{Name: "Advance(10s)", Data: c02Advance{c02Period}})
	ls = append(ls, engine.Letter{Name: "RestartViaGenesis", Data: c02Restart{}})
	// the chain goes on living around the three bridges: somebody opens a fourth one (once)
	if n, err := s.w.HK.GetNextBridgeId(s.ctx); err == nil && n == 4 {
		ls = append(ls, engine.Letter{Name: "CreateBridge(one more)", Data: c02NewBridge{}})
	}
	// the bridge's configuration is rewritten while claims exist (none of it is about claims)
	ls = append(ls, engine.Letter{Name: "UpdateOracleConfig(b1,flip)", Data: c02Config{"oracle"}})
	ls = append(ls, engine.Letter{Name: "UpdateBatchInfo(b1)", Data: c02Config{"batch"}})
	for wi := 0; wi < 3; wi++ {
		for idx := uint64(1); idx <= 2; idx++ {
			for _, pr := range []string{"R12", "R123"} {
				if s.fx.trees[pr].index(s.fx.ws[wi]) < 0 {
					continue
				}
				for _, by := range []string{"bob", "stranger"} {
					ls = append(ls, engine.Letter{Name: fmt.Sprintf("Finalize(w%d,idx=%d,proof=%s,by=%s)", wi+1, idx, pr, by), Data: c02Finalize{wi, idx, pr, by, false}})
				}
				if wi == 0 && pr == "R12" {
					ls = append(ls, engine.Letter{Name: fmt.Sprintf("Finalize(w1,idx=%d,proof=R12,by=bob,to=UPPER-CASE-SPELLING)", idx), Data: c02Finalize{wi, idx, pr, "bob", true}})
				}
			}
		}
	}
	return ls
}

func (c02Sys) Step(s *c02State, l engine.Letter) (*c02State, string, *engine.Violation) {
	ctx, _ := s.ctx.CacheContext()
	c := &c02State{ctx: ctx, w: s.w, outs: s.outs, paid: s.paid, fx: s.fx}
	switch d := l.Data.(type) {
	case c02Advance:
		c.ctx = world.Advance(ctx, d.d)
		return c, "ok", nil
	case c02Config:
		var m sdk.Msg
		if d.what == "oracle" {
			cfg, err := s.w.HK.GetBridgeConfig(ctx, 1)
			if err != nil {
				panic(err)
			}
			m = ophosttypes.NewMsgUpdateOracleConfig(s.w.Authority, 1, !cfg.OracleEnabled)
		} else {
			m = ophosttypes.NewMsgUpdateBatchInfo(s.w.Authority, 1, ophosttypes.BatchInfo{Submitter: world.Addr("submitter").String(), ChainType: ophosttypes.BatchInfo_CHAIN_TYPE_CELESTIA})
		}
		if res := s.w.Deliver(ctx, m); !res.OK() {
			return c, "rejected", viol("harness-expectation", "%s by governance failed: %v", l.Name, res.Err)
		}
		return c, "ok", nil
	case c02NewBridge:
		res := s.w.Deliver(ctx, ophosttypes.NewMsgCreateBridge(world.Addr("creator").String(), world.BridgeConfig("proposer2", "challenger2", c02Period)))
		if !res.OK() {
			return c, "rejected", viol("harness-expectation", "creating a third bridge failed: %v", res.Err)
		}
		return c, "ok", nil
	case c02Restart:
		if err := s.w.RestartViaGenesis(ctx); err != nil {
			return c, "error", viol("claim-records-survive-a-restart", "export / validate / import of the module genesis failed: %v", err)
		}
		return c, "ok", nil
	case c02Propose:
		root := s.fx.bad
		if t, ok := s.fx.trees[d.root]; ok {
			root = t.OutputRoot
		}
		next := uint64(len(s.outs)) + 1
		res := s.w.Deliver(ctx, ophosttypes.NewMsgProposeOutput(world.Addr("proposer").String(), 1, next, 100+uint64(ctx.BlockHeight())*10+next, root[:]))
		if !res.OK() {
			// l2 block numbers are derived from height: a proposal after a delete at the same height may
			// reuse a number; such rejections are C11's business
			return c, "rejected", nil
		}
		c.outs = append(append([]c02Out{}, s.outs...), c02Out{d.root, ctx.BlockTime()})
		return c, "accepted", nil
	case c02Delete:
		res := s.w.Deliver(ctx, ophosttypes.NewMsgDeleteOutput(world.Addr("challenger").String(), 1, d.idx))
		if !res.OK() {
			return c, "rejected", nil
		}
		if d.idx < 1 || d.idx > uint64(len(s.outs)) {
			return c, "accepted", viol("harness-model-out-of-sync", "delete of idx %d accepted with %d outputs", d.idx, len(s.outs))
		}
		c.outs = append([]c02Out{}, s.outs[:d.idx-1]...)
		return c, "accepted", nil
	case c02Finalize:
		before := s.w.Digest(s.ctx)
		wdr := s.fx.ws[d.w]
		t := s.fx.trees[d.proof]
		msg := t.claim(t.index(wdr), d.idx, d.by)
		if d.upper {
			msg.To = strings.ToUpper(msg.To)
		}
		bobBefore := balanceOf(s.w, ctx, world.Addr("bob"), "uxx")
		res := s.w.Deliver(ctx, msg)
		if d.upper && res.OK() {
			if s.paid[d.w] {
				return c, "accepted", tagged(viol("withdrawal-paid-at-most-once", "%s was paid, and paid again when resubmitted with its recipient spelled in upper case (idx=%d)", wdr, d.idx), "kind", "double-pay")
			}
			return c, "accepted", viol("finalize-needs-final-output-with-matching-root", "a claim whose recipient string differs from the committed one (upper-case spelling) was accepted (idx=%d)", d.idx)
		}
		valid := false
		if d.idx >= 1 && d.idx <= uint64(len(s.outs)) {
			o := s.outs[d.idx-1]
			valid = o.Root == d.proof && !ctx.BlockTime().Before(o.T.Add(c02Period))
		}
		if res.OK() {
			if s.paid[d.w] {
				return c, "accepted", tagged(viol("withdrawal-paid-at-most-once", "%s finalized a second time (idx=%d proof=%s by=%s)", wdr, d.idx, d.proof, d.by), "kind", "double-pay")
			}
			if !valid {
				return c, "accepted", viol("finalize-needs-final-output-with-matching-root", "%s finalized against idx %d (outs=%v now=%s)", wdr, d.idx, s.outs, ctx.BlockTime())
			}
			if esc := balanceOf(s.w, s.ctx, sdk.AccAddress(ref.BridgeAddress(1)), "uxx"); esc < int64(wdr.Amount) {
				return c, "accepted", viol("claimed-query-iff-paid", "%s finalized (and recorded as claimed) although the escrow holds only %d: nothing was paid", wdr, esc)
			}
			if got := balanceOf(s.w, ctx, world.Addr("bob"), "uxx") - bobBefore; got != int64(wdr.Amount) {
				return c, "accepted", viol("finalize-pays-exactly-the-amount", "recipient received %d, expected %d", got, wdr.Amount)
			}
			// the payment is announced in exactly one event that names this withdrawal and nothing else
			want := map[string]string{"bridge_id": "1", "output_index": fmt.Sprint(d.idx), "l2_sequence": fmt.Sprint(wdr.Seq), "from": wdr.From, "to": wdr.To,
				"l1_denom": wdr.Denom, "l2_denom": ref.L2Denom(1, wdr.Denom), "amount": fmt.Sprint(wdr.Amount)}
			evs := world.EventsOfType(res.Events, "finalize_token_withdrawal")
			if len(evs) != 1 || len(evs[0].Attributes) != len(want) {
				return c, "accepted", viol("finalize-is-announced-faithfully", "%d finalize_token_withdrawal events (attributes %v)", len(evs), evs)
			}
			for k, w := range want {
				if got, ok := world.Attr(evs[0], k); !ok || got != w {
					return c, "accepted", viol("finalize-is-announced-faithfully", "finalize_token_withdrawal event: %s=%q, expected %q", k, got, w)
				}
			}
			c.paid[d.w] = true
			if s.paid[d.w] == false && d.idx == 2 {
				return c, "accepted-via-idx2", nil
			}
			return c, "accepted", nil
		}
		if res.Panicked {
			return c, "panic", viol("handler-panic", "FinalizeTokenWithdrawal panicked: %s", res.PanicVal)
		}
		if s.w.Digest(ctx) != before {
			return c, "rejected", viol("rejected-message-has-no-effect", "rejected finalize changed state: %v", res.Err)
		}
		if d.upper {
			return c, "rejected-other-spelling", nil
		}
		if valid && !s.paid[d.w] {
			if balanceOf(s.w, ctx, sdk.AccAddress(ref.BridgeAddress(1)), "uxx") < int64(wdr.Amount) {
				return c, "rejected-escrow-cannot-pay", nil
			}
			return c, "rejected-though-valid", nil
		}
		if s.paid[d.w] && valid {
			return c, "rejected-already-paid", nil
		}
		return c, "rejected", nil
	}
	panic("unknown letter")
}

func (c02Sys) Check(s *c02State) *engine.Violation {
	if s.setup != "" {
		return viol("valid-claim-against-a-final-output-is-paid", "building the start state: the single withdrawal of bridge 3, committed by its final output 1, was refused: %s", s.setup)
	}
	// bridge 3's withdrawal was paid before the exploration started: it stays claimed, whatever happens
	// on bridge 1 (and through every restart), and can never be paid again
	{
		t2 := s.fx.t2
		h := t2.Ws[0].leaf()
		r, err := s.w.Q.Claimed(s.ctx, &ophosttypes.QueryClaimedRequest{BridgeId: c02Neighbour, WithdrawalHash: h[:]})
		if err != nil || !r.Claimed {
			return viol("claimed-query-iff-paid", "Claimed(bridge 3, its paid withdrawal) = %v (err=%v)", r, err)
		}
		bctx, _ := s.ctx.CacheContext()
		if res := s.w.Deliver(bctx, t2.claim(0, 1, "bob")); res.OK() {
			return tagged(viol("withdrawal-paid-at-most-once", "bridge 3's withdrawal, paid before the exploration started, was paid again"), "kind", "double-pay")
		}
	}
	sum := int64(0)
	for i, w := range s.fx.ws {
		h := w.leaf()
		r1, err := s.w.Q.Claimed(s.ctx, &ophosttypes.QueryClaimedRequest{BridgeId: 1, WithdrawalHash: h[:]})
		if err != nil {
			return viol("claimed-query-iff-paid", "Claimed query failed: %v", err)
		}
		if r1.Claimed != s.paid[i] {
			return viol("claimed-query-iff-paid", "Claimed(bridge 1, w%d) = %v but paid = %v", i+1, r1.Claimed, s.paid[i])
		}
		r2, err := s.w.Q.Claimed(s.ctx, &ophosttypes.QueryClaimedRequest{BridgeId: 2, WithdrawalHash: h[:]})
		if err != nil || r2.Claimed {
			return viol("claimed-query-iff-paid", "Claimed(bridge 2, w%d) = %v err=%v; nothing was ever paid from bridge 2", i+1, r2 != nil && r2.Claimed, err)
		}
		if s.paid[i] {
			sum += int64(w.Amount)
		}
	}
	{
		h := s.fx.t2.Ws[0].leaf()
		if r, err := s.w.Q.Claimed(s.ctx, &ophosttypes.QueryClaimedRequest{BridgeId: 2, WithdrawalHash: h[:]}); err != nil || r.Claimed {
			return viol("claimed-query-iff-paid", "Claimed(bridge 2, the withdrawal bridge 3 paid) = %v err=%v; bridge 2 never had an output", r != nil && r.Claimed, err)
		}
	}
	if got := balanceOf(s.w, s.ctx, world.Addr("bob"), "uxx"); got != sum {
		return viol("recipient-balance-equals-sum-of-paid", "bob holds %d, paid sum is %d", got, sum)
	}
	if got := balanceOf(s.w, s.ctx, ophosttypes.BridgeAddress(1), "uxx"); got != 12-sum {
		return viol("escrow-equals-deposits-minus-paid", "escrow holds %d, expected %d", got, 12-sum)
	}
	return nil
}

func init() {
	register(&Check{ID: "C02", Level: "model_checking",
		Run: func(rc *engine.RunCtx) *engine.Result {
			res := engine.NewResult()
			rep, err := engine.Explore[*c02State](c02Sys{}, opts(rc, pick(rc, 6, 8)))
			if err != nil {
				res.HarnessErr = err
				return res
			}
			res.Absorb("c02", rep)
			res.Coverage["alphabet"] = "Propose(next, root∈{R12,R123,Rbad}); Delete(i∈{1,2}); Advance∈{4s,10s}; Finalize(w∈{w1,w2,w3}, idx∈{1,2}, proof∈{in T12, in T123}, by∈{bob,stranger})"
			res.Coverage["oracle"] = "paid[w]≤1; finalize accepted ⇒ unpaid ∧ output at idx stored, final, root matches the proof's tree (independent tree/leaf/output-root code); recipient and escrow balances equal the paid ledger; Claimed query ⇔ paid in every state (and false under the idle bridge 2; bridge 3's own paid withdrawal stays claimed and unpayable); rejected ⇒ digest unchanged"
			res.Assumptions = []string{"3 leaves, 2 trees sharing w1,w2, one bogus root, period 10s; histories to the completed depth", "escrow pre-funded with twice the sum of all leaves"}
			for _, k := range []string{"Finalize/accepted", "Finalize/accepted-via-idx2", "Finalize/rejected-already-paid", "Delete/accepted", "Propose/accepted"} {
				res.Require(res.OutcomeCount("c02", k) > 0, "outcome %s never occurred", k)
			}
			res.Require(res.OutcomeCount("c02", "Finalize/rejected-though-valid") == 0, "a valid unpaid claim was rejected (C04's subject; makes this run meaningless)")
			return res
		},
		Replay: func(kind string, path []string) ([]string, *engine.Violation, error) {
			return engine.Replay[*c02State](c02Sys{}, path)
		},
	})
}
