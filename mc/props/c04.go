package props

import (
	"bytes"
	"fmt"
	"strconv"
	"strings"
	"time"

	"cosmossdk.io/math"
	sdk "github.com/cosmos/cosmos-sdk/types"
	authtypes "github.com/cosmos/cosmos-sdk/x/auth/types"

	opchildtypes "github.com/initia-labs/OPinit/x/opchild/types"
	ophosttypes "github.com/initia-labs/OPinit/x/ophost/types"

	"verifmc/engine"
	"verifmc/ref"
	"verifmc/world"
)

// C04 — every withdrawal the L2 records can be claimed on L1 (Mode P over withdrawal-tree menus).

const c04Period = 10 * time.Second

type c04Desc struct {
	Kind   string // "user" | "refund"
	Amount string // decimal
	Denom  string // L1 denom
	Rcpt   string // "lower" | "upper" | "fresh" | "module"  (user and hook kinds)
}

func (d c04Desc) String() string {
	return fmt.Sprintf("%s/%s/%s/%s", d.Kind, amtName(d.Amount), short(d.Denom), d.Rcpt)
}

var c04Amounts = []string{"1", "9223372036854775807", "9223372036854775808", "18446744073709551615", "18446744073709551616", "18446744073709551617", "340282366920938463463374607431768211456"}

func amtName(a string) string {
	switch a {
	case "1":
		return "1"
	case "9223372036854775807":
		return "2^63-1"
	case "9223372036854775808":
		return "2^63"
	case "18446744073709551615":
		return "2^64-1"
	case "18446744073709551616":
		return "2^64"
	case "18446744073709551617":
		return "2^64+1"
	case "340282366920938463463374607431768211456":
		return "2^128"
	}
	return a
}

var c04Denoms = []string{"uinit", "d" + strings.Repeat("x", 127), "ibc/27394FB092D2ECCD56123C74F36E4C1F926001CEADA9CA97EA622B25F41E5EB2"}

func c04Rcpt(kind string) string {
	switch kind {
	case "lower":
		return world.Addr("bob").String()
	case "upper":
		return strings.ToUpper(world.Addr("bob").String())
	case "fresh":
		return world.Addr("fresh-account-never-seen").String()
	case "module":
		// a valid L1 address that the L1 bank module lists as blocked for user transfers
		return authtypes.NewModuleAddress(authtypes.FeeCollectorName).String()
	case "escrow":
		// the bridge's own escrow account: paying it is a transfer to itself
		return sdk.AccAddress(ref.BridgeAddress(c04Bridge)).String()
	}
	panic(kind)
}

type c04Sys struct {
	w1 *world.L1
	w2 *world.L2
}

// c04Bridge is the bridge of the rollup under test; its committing output has index 2 (index and id differ).
const c04Bridge = 3

func newC04Sys() *c04Sys {
	huge, _ := math.NewIntFromString("1" + strings.Repeat("0", 60))
	coins := sdk.Coins{}
	for _, d := range c04Denoms {
		coins = coins.Add(sdk.NewCoin(d, huge))
	}
	w1 := world.NewL1(world.L1Options{Accounts: map[string]sdk.Coins{
		"proposer": nil, "challenger": nil, "creator": nil, "submitter": nil, "bob": nil, "alice": coins,
	}})
	// the fee collector exists as a module account on this L1 (it does on any chain that has charged a fee);
	// it is one of the recipients
	w1.AK.GetModuleAccount(w1.Ctx, authtypes.FeeCollectorName)
	// the rollup's bridge is one of several on this L1: ids 1, 2 and 4 belong to other rollups
	for i := 0; i < 4; i++ {
		if res := w1.Deliver(w1.Ctx, ophosttypes.NewMsgCreateBridge(world.Addr("creator").String(), world.BridgeConfig("proposer", "challenger", c04Period))); !res.OK() {
			panic(res.Err)
		}
	}
	w2 := world.NewL2(world.L2Options{Accounts: map[string]sdk.Coins{"alice": nil, "bob": nil, "executor": nil, "admin": nil},
		// two executors are listed; the one that relays is the first, and the list is not sorted
		Executors: world.ExecutorsWithSpare("executor")})
	return &c04Sys{w1: w1, w2: w2}
}

type c04Result struct {
	recorded, claimed, refusedAtEntry int
	transitions                       int
}

// runTree produces the withdrawals of descs on L2 (real handlers only), builds the tree with the
// independent builder, proposes, finalizes and claims every leaf.
func (y *c04Sys) runTree(descs []c04Desc) (c04Result, *engine.Violation) {
	var r c04Result
	c1, _ := y.w1.Ctx.CacheContext()
	c2, _ := y.w2.Ctx.CacheContext()
	alice := world.Addr("alice")
	var wds []wd
	l1seq := uint64(0)
	// relay: the deposit goes through the real L1 handler; what reaches L2 is exactly what L1's event
	// announces (sender spelling included), as a faithful executor would relay it
	relayFrom := func(sender, to string, coin sdk.Coin, l1denom string) (world.DeliverResult, bool) {
		res := y.w1.Deliver(c1, ophosttypes.NewMsgInitiateTokenDeposit(sender, c04Bridge, to, coin, nil))
		r.transitions++
		if !res.OK() {
			return res, false
		}
		l1seq++
		evs := world.EventsOfType(res.Events, "initiate_token_deposit")
		if len(evs) != 1 {
			return world.DeliverResult{Err: fmt.Errorf("%d initiate_token_deposit events", len(evs))}, true
		}
		g := func(k string) string { v, _ := world.Attr(evs[0], k); return v }
		eamt, _ := math.NewIntFromString(g("amount"))
		res2 := y.w2.Deliver(c2, opchildtypes.NewMsgFinalizeTokenDeposit(world.Addr("executor").String(), g("from"), g("to"), sdk.NewCoin(g("l2_denom"), eamt), l1seq, uint64(c1.BlockHeight()), g("l1_denom"), nil))
		r.transitions++
		return res2, true
	}
	relay := func(to string, coin sdk.Coin, l1denom string) (world.DeliverResult, bool) {
		return relayFrom(alice.String(), to, coin, l1denom)
	}
	parse := func(evs sdk.Events) *engine.Violation {
		for _, e := range world.EventsOfType(evs, "initiate_token_withdrawal") {
			g := func(k string) string { v, _ := world.Attr(e, k); return v }
			seq, err := strconv.ParseUint(g("l2_sequence"), 10, 64)
			amt, ok := math.NewIntFromString(g("amount"))
			if err != nil || !ok {
				return viol("withdrawal-event-parsable", "event seq=%q amount=%q", g("l2_sequence"), g("amount"))
			}
			w := wd{Bridge: c04Bridge, Seq: seq, From: g("from"), To: g("to"), Denom: g("base_denom")}
			if amt.IsUint64() {
				w.Amount = amt.Uint64()
			} else {
				// recorded although it can never be committed to a leaf (the leaf format carries 64 bits)
				return tagged(viol("recorded-withdrawal-is-claimable", "L2 recorded withdrawal #%d of %s (%s): the amount does not fit the 64-bit leaf format, so it can never be claimed on L1", seq, amtName(amt.String()), short(w.Denom)), "amount", ">=2^64", "kind", kindOf(w.From))
			}
			wds = append(wds, w)
			r.recorded++
		}
		return nil
	}
	for i, d := range descs {
		amt, _ := math.NewIntFromString(d.Amount)
		l2d := ref.L2Denom(c04Bridge, d.Denom)
		switch d.Kind {
		case "refund", "refund-upper-sender", "refund-blank-recipient":
			sender := alice.String()
			if d.Kind == "refund-upper-sender" {
				sender = strings.ToUpper(sender) // the same account, spelled in upper case: the refund goes back to this string
			}
			badTo := "garbage-recipient"
			if d.Kind == "refund-blank-recipient" {
				badTo = " \t" // not empty, so both chains take it; the refund names it as its sender
			}
			res, accepted := relayFrom(sender, badTo, sdk.NewCoin(d.Denom, amt), d.Denom)
			if !accepted {
				r.refusedAtEntry++
				continue
			}
			if !res.OK() {
				return r, viol("faithful-relay-is-accepted", "desc %d (%s): relay failed: %v", i, d, res.Err)
			}
			if v := parse(res.Events); v != nil {
				return r, v
			}
			// the automatic refund must be a transfer L1 can complete: its recipient is the (valid) L1 sender
			if n := len(wds); n > 0 {
				if _, err := y.w1.AK.AddressCodec().StringToBytes(wds[n-1].To); err != nil {
					return r, tagged(viol("refund-withdrawal-is-completable", "refund of a deposit sent by %s names the L1 recipient %q, which L1 can never pay", short(alice.String()), wds[n-1].To), "kind", "refund")
				}
			}
		case "executor-direct", "executor-direct-empty-recipient":
			// what the L2 accepts is what its own validation admits, not only what today's L1 emits: a
			// deposit message handed in by the executor directly (the escrow is funded for it, as the
			// property allows), to an unparseable or to an empty recipient, so that it is refunded
			to := "garbage-recipient"
			if d.Kind == "executor-direct-empty-recipient" {
				to = ""
			}
			if err := y.w1.BK.SendCoins(c1, alice, ref.BridgeAddress(c04Bridge), sdk.NewCoins(sdk.NewCoin(d.Denom, amt))); err != nil {
				panic(err)
			}
			l1seq++
			res := y.w2.Deliver(c2, opchildtypes.NewMsgFinalizeTokenDeposit(world.Addr("executor").String(), alice.String(), to, sdk.NewCoin(l2d, amt), l1seq, uint64(c1.BlockHeight()), d.Denom, nil))
			r.transitions++
			if !res.OK() {
				l1seq--
				r.refusedAtEntry++
				continue
			}
			if v := parse(res.Events); v != nil {
				return r, v
			}
		case "hook":
			// a user withdrawal executed inside the deposit's own hook: the recipient's signed tx
			// withdraws the deposited amount straight back to L1
			acc := y.w2.AK.GetAccount(c2, alice)
			hookMsgs := []sdk.Msg{opchildtypes.NewMsgInitiateTokenWithdrawal(alice.String(), c04Rcpt(d.Rcpt), sdk.NewCoin(l2d, amt))}
			if amt.GT(math.OneInt()) {
				// two withdrawals in one hook (1 and the rest): both must be announced
				hookMsgs = []sdk.Msg{
					opchildtypes.NewMsgInitiateTokenWithdrawal(alice.String(), c04Rcpt(d.Rcpt), sdk.NewCoin(l2d, math.OneInt())),
					opchildtypes.NewMsgInitiateTokenWithdrawal(alice.String(), c04Rcpt(d.Rcpt), sdk.NewCoin(l2d, amt.SubRaw(1))),
				}
			}
			key := world.SecpKey("alice")
			data := signHookTx(y.w2, hookMsgs, key, key.PubKey(), acc.GetAccountNumber(), acc.GetSequence(), c2.ChainID())
			res := y.w1.Deliver(c1, ophosttypes.NewMsgInitiateTokenDeposit(alice.String(), c04Bridge, alice.String(), sdk.NewCoin(d.Denom, amt), data))
			r.transitions++
			if !res.OK() {
				r.refusedAtEntry++
				continue
			}
			l1seq++
			res2 := y.w2.Deliver(c2, opchildtypes.NewMsgFinalizeTokenDeposit(world.Addr("executor").String(), alice.String(), alice.String(), sdk.NewCoin(l2d, amt), l1seq, uint64(c1.BlockHeight()), d.Denom, data))
			r.transitions++
			if !res2.OK() {
				return r, viol("faithful-relay-is-accepted", "desc %d (%s): relay failed: %v", i, d, res2.Err)
			}
			supplyAfter := y.w2.BK.GetSupply(c2, l2d).Amount
			before := len(wds)
			if v := parse(res2.Events); v != nil {
				return r, v
			}
			// L2 accepted the withdrawal iff the tokens are gone again; then it must have been announced
			if bal := y.w2.BK.GetBalance(c2, alice, l2d).Amount; bal.IsZero() && len(wds) != before+len(hookMsgs) {
				return r, tagged(viol("recorded-withdrawal-is-claimable", "desc %d (%s): the hook's %d withdrawals burnt the deposit (supply %s, balance 0) but %d were announced; the others can never be claimed on L1", i, d, len(hookMsgs), supplyAfter, len(wds)-before), "kind", "hook")
			}
		case "user":
			// establish the denom pair through a real 1-unit deposit, then give the user the holding
			// (several deposits can add up to any amount) and back it on L1
			res, accepted := relay(alice.String(), sdk.NewCoin(d.Denom, math.OneInt()), d.Denom)
			if !accepted || !res.OK() {
				return r, viol("faithful-relay-is-accepted", "desc %d (%s): pairing deposit failed: %v", i, d, res.Err)
			}
			if amt.GT(math.OneInt()) {
				extra := sdk.NewCoins(sdk.NewCoin(l2d, amt.SubRaw(1)))
				if err := y.w2.BK.MintCoins(c2, authtypes.Minter, extra); err != nil {
					panic(err)
				}
				if err := y.w2.BK.SendCoinsFromModuleToAccount(c2, authtypes.Minter, alice, extra); err != nil {
					panic(err)
				}
				if err := y.w1.BK.SendCoins(c1, alice, ref.BridgeAddress(c04Bridge), sdk.NewCoins(sdk.NewCoin(d.Denom, amt.SubRaw(1)))); err != nil {
					panic(err)
				}
			}
			wres := y.w2.Deliver(c2, opchildtypes.NewMsgInitiateTokenWithdrawal(alice.String(), c04Rcpt(d.Rcpt), sdk.NewCoin(l2d, amt)))
			r.transitions++
			if !wres.OK() {
				if wres.Panicked {
					return r, viol("handler-panic", "InitiateTokenWithdrawal panicked: %s", wres.PanicVal)
				}
				r.refusedAtEntry++
				continue
			}
			if v := parse(wres.Events); v != nil {
				return r, v
			}
		}
	}
	if len(wds) == 0 {
		return r, nil
	}
	t := mkTree("c04", wds, 0)
	// the neighbours live their own lives: bridges 1 and 4 each get an output before ours …
	neighbour := ref.Sum256([]byte("a neighbour's output"))
	for _, nb := range []uint64{1, 4} {
		if res := y.w1.Deliver(c1, ophosttypes.NewMsgProposeOutput(world.Addr("proposer").String(), nb, 1, 7, neighbour[:])); !res.OK() {
			return r, viol("harness-expectation", "neighbour bridge %d: proposal failed: %v", nb, res.Err)
		}
	}
	// the committing output is the bridge's second of three (index 2 on bridge 3: index and bridge id differ,
	// and it is neither the oldest nor the newest final output when the claims are made)
	other := ref.Sum256([]byte("an earlier output"))
	if res := y.w1.Deliver(c1, ophosttypes.NewMsgProposeOutput(world.Addr("proposer").String(), c04Bridge, 1, 5, other[:])); !res.OK() {
		return r, viol("faithful-proposal-is-accepted", "proposal failed: %v", res.Err)
	}
	if res := y.w1.Deliver(c1, ophosttypes.NewMsgProposeOutput(world.Addr("proposer").String(), c04Bridge, 2, 10, t.OutputRoot[:])); !res.OK() {
		return r, viol("faithful-proposal-is-accepted", "proposal failed: %v", res.Err)
	}
	// ... and not its last one: a later output is proposed (and becomes final) before the claims are made
	later := ref.Sum256([]byte("a later output"))
	if res := y.w1.Deliver(c1, ophosttypes.NewMsgProposeOutput(world.Addr("proposer").String(), c04Bridge, 3, 20, later[:])); !res.OK() {
		return r, viol("faithful-proposal-is-accepted", "proposal failed: %v", res.Err)
	}
	// … and both are challenged and rolled back while ours are pending
	for _, nb := range []uint64{4, 1} {
		if res := y.w1.Deliver(c1, ophosttypes.NewMsgDeleteOutput(world.Addr("challenger").String(), nb, 1)); !res.OK() {
			return r, viol("harness-expectation", "neighbour bridge %d: roll-back failed: %v", nb, res.Err)
		}
	}
	r.transitions++
	c1 = world.Advance(c1, c04Period+time.Second)
	for i, w := range wds {
		to, err := y.w1.AK.AddressCodec().StringToBytes(w.To)
		if err != nil {
			continue // not a valid L1 recipient: outside the property
		}
		before := y.w1.BK.GetBalance(c1, to, w.Denom).Amount
		res := y.w1.Deliver(c1, t.claim(i, 2, "bob"))
		r.transitions++
		if !res.OK() {
			return r, tagged(viol("recorded-withdrawal-is-claimable", "claim of recorded %s (leaf %d of %d) failed: %v", w, i, len(wds), res.Err), "amount", "<2^64", "kind", kindOf(w.From))
		}
		wantDelta := math.NewIntFromUint64(w.Amount)
		if bytes.Equal(to, ref.BridgeAddress(c04Bridge)) {
			wantDelta = math.ZeroInt() // escrow pays escrow
		}
		if got := y.w1.BK.GetBalance(c1, to, w.Denom).Amount.Sub(before); !got.Equal(wantDelta) {
			return r, viol("claim-pays-exactly-the-recorded-amount", "claim of %s paid %s", w, got)
		}
		r.claimed++
	}
	return r, nil
}

func kindOf(from string) string {
	if from == "garbage-recipient" || strings.TrimSpace(from) == "" {
		return "refund"
	}
	return "user"
}

var _ = kindOf

func c04Run(rc *engine.RunCtx) *engine.Result {
	res := engine.NewResult()
	known := rc.Known.Matcher(rc.Property)
	y := newC04Sys()
	var full, small []c04Desc
	for _, a := range c04Amounts {
		for _, d := range c04Denoms {
			for _, rcp := range []string{"lower", "upper", "fresh", "module"} {
				full = append(full, c04Desc{"user", a, d, rcp})
			}
			full = append(full, c04Desc{"refund", a, d, ""})
		}
		full = append(full, c04Desc{"refund-upper-sender", a, "uinit", ""}, c04Desc{"refund-blank-recipient", a, "uinit", ""})
	}
	for _, a := range c04Amounts {
		full = append(full, c04Desc{"executor-direct", a, "uinit", ""}, c04Desc{"executor-direct-empty-recipient", a, "uinit", ""})
	}
	for _, a := range []string{"1", "9223372036854775808", "18446744073709551615"} {
		for _, rcp := range []string{"lower", "upper"} {
			full = append(full, c04Desc{"hook", a, "uinit", rcp})
		}
	}
	for _, a := range []string{"1", "9223372036854775808", "18446744073709551615"} {
		for _, rcp := range []string{"lower", "upper", "fresh"} {
			small = append(small, c04Desc{"user", a, "uinit", rcp})
		}
		small = append(small, c04Desc{"refund", a, "uinit", ""})
	}
	small = append(small, c04Desc{"hook", "1", "uinit", "lower"})
	small = append(small, c04Desc{"user", "1", "uinit", "module"})
	small = append(small, c04Desc{"user", "1", "uinit", "escrow"})
	small = append(small, c04Desc{"refund-upper-sender", "1", "uinit", ""})
	small = append(small, c04Desc{"refund-blank-recipient", "1", "uinit", ""})
	small = append(small, c04Desc{"executor-direct", "1", "uinit", ""})
	var trees [][]c04Desc
	for _, d := range full {
		trees = append(trees, []c04Desc{d})
	}
	maxExh := 3
	if rc.Thorough() {
		maxExh = 4
	}
	var gen func(prefix []c04Desc, n int)
	gen = func(prefix []c04Desc, n int) {
		if len(prefix) == n {
			trees = append(trees, append([]c04Desc{}, prefix...))
			return
		}
		for _, d := range small {
			gen(append(prefix, d), n)
		}
	}
	for n := 2; n <= maxExh; n++ {
		gen(nil, n)
	}
	for n := maxExh + 1; n <= 17; n++ { // covering family: every size, every position claimed
		var t []c04Desc
		for k := 0; k < n; k++ {
			t = append(t, small[(k+n)%len(small)])
		}
		trees = append(trees, t)
	}
	var total c04Result
	nontrivial := 0
	for _, t := range trees {
		if time.Now().After(rc.Deadline()) {
			res.Coverage["exhaustive"] = false
			break
		}
		r, v := y.runTree(t)
		total.recorded += r.recorded
		total.claimed += r.claimed
		total.refusedAtEntry += r.refusedAtEntry
		total.transitions += r.transitions
		if r.recorded > 0 {
			nontrivial++
		}
		if v != nil {
			names := make([]string, len(t))
			for i, d := range t {
				names[i] = d.String()
			}
			v.Path = names
			v.Tags["search"] = "trees"
			if id, ok := known(v); ok {
				res.KnownHits[id]++
				if _, have := res.KnownWit[id]; !have {
					res.KnownWit[id] = v
				}
			} else if len(res.Violations) < 20 {
				res.Violations = append(res.Violations, v)
			}
		}
		if len(t) <= 2 && (total.transitions%37 == 0) {
			res.AddSample(map[string]any{"tree": fmt.Sprint(t), "recorded": r.recorded, "claimed": r.claimed, "refused_at_entry": r.refusedAtEntry})
		}
	}
	res.AddSample(map[string]any{"tree": fmt.Sprint(trees[0]), "note": "first tree of the enumeration"})
	if _, ok := res.Coverage["exhaustive"]; !ok {
		res.Coverage["exhaustive"] = true
	}
	res.Coverage["states"] = int64(len(trees))
	res.Coverage["transitions"] = int64(total.transitions)
	res.Coverage["traces_validated_against_impl"] = int64(len(trees))
	res.Coverage["evaluations"] = int64(len(trees))
	res.Coverage["distinct_nontrivial"] = int64(nontrivial)
	res.Coverage["rule"] = "states = withdrawal trees (descriptor lists) enumerated: all single descriptors of the full menu, all trees of size 2..N over the reduced menu, one covering tree per size up to 17; non-trivial = at least one withdrawal was recorded by L2; transitions = messages delivered to the real handlers of both chains"
	res.Coverage["withdrawals_recorded"] = total.recorded
	res.Coverage["withdrawals_claimed"] = total.claimed
	res.Coverage["refused_at_entry_point"] = total.refusedAtEntry
	res.Coverage["menu"] = map[string]any{"amounts": []string{"1", "2^63-1", "2^63", "2^64-1", "2^64", "2^64+1", "2^128"}, "denoms": []string{"uinit", "128-char denom", "ibc/<hash> with slash"}, "recipients": []string{"lower-case bech32", "upper-case bech32", "fresh account", "L1 module account on the bank's blocked list"}, "kinds": []string{"user withdrawal", "refund of a deposit with a malformed recipient (also with the L1 sender spelled in upper case)", "user withdrawals (one, or two for amounts above 1) executed inside the deposit's own hook", "a deposit message handed to L2 by the executor directly (escrow funded), to an unparseable or an empty recipient: whatever L2's own validation admits"}, "exhaustive_tree_sizes": maxExh}
	res.Coverage["oracle"] = "every withdrawal event L2 emits for a positive amount and a valid L1 recipient: after proposing the tree built by the independent builder and finalizing it, the L1 claim succeeds and pays exactly the recorded amount; a recorded amount that does not fit the leaf format is a violation (the entry points must refuse what can never be completed)"
	res.Assumptions = []string{"user holdings above what one deposit carries are produced by minting on L2 and funding the escrow on L1 (several deposits can add up to any amount)"}
	res.Require(total.claimed > 100, "only %d claims succeeded", total.claimed)
	return res
}

func init() {
	register(&Check{ID: "C04", Level: "model_checking",
		Run: c04Run,
		Replay: func(kind string, path []string) ([]string, *engine.Violation, error) {
			var t []c04Desc
			for _, n := range path {
				p := strings.Split(n, "/")
				if len(p) < 4 {
					return nil, nil, fmt.Errorf("bad descriptor %q", n)
				}
				// denom names contain '/', so take kind, amount from the front and recipient from the back
				d := c04Desc{Kind: p[0], Rcpt: p[len(p)-1]}
				for _, a := range c04Amounts {
					if amtName(a) == p[1] {
						d.Amount = a
					}
				}
				den := strings.Join(p[2:len(p)-1], "/")
				for _, dd := range c04Denoms {
					if short(dd) == den {
						d.Denom = dd
					}
				}
				t = append(t, d)
			}
			_, v := newC04Sys().runTree(t)
			if v != nil {
				v.Path = path
			}
			return []string{"ran"}, v, nil
		},
	})
}
