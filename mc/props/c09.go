package props

import (
	"fmt"
	"strconv"
	"strings"

	sdk "github.com/cosmos/cosmos-sdk/types"
	banktypes "github.com/cosmos/cosmos-sdk/x/bank/types"

	opchildtypes "github.com/initia-labs/OPinit/x/opchild/types"

	"verifmc/engine"
	"verifmc/ref"
	"verifmc/world"
)

// C09 — L2 bridged supply is conserved; withdrawals burn exactly what they record.

var (
	c09L2x = ref.L2Denom(1, "uxx")
	c09L2y = ref.L2Denom(1, "uyy")
)

const c09Native = "umin"
const c09Unknown = "unknowndenom"

type c09State struct {
	ctx    sdk.Context
	w      *world.L2
	nextL1 uint64
	nextL2 uint64
	bal    map[string]int64 // "acct/denom"
	supply map[string]int64
	pairs  map[string]string
}

func (s *c09State) clone(ctx sdk.Context) *c09State {
	c := &c09State{ctx: ctx, w: s.w, nextL1: s.nextL1, nextL2: s.nextL2, bal: map[string]int64{}, supply: map[string]int64{}, pairs: map[string]string{}}
	for k, v := range s.bal {
		c.bal[k] = v
	}
	for k, v := range s.supply {
		c.supply[k] = v
	}
	for k, v := range s.pairs {
		c.pairs[k] = v
	}
	return c
}

type c09Sys struct{}

type c09Deposit struct {
	valid    bool
	amt      int64
	denom    string
	base     string
	hookGood bool // valid recipient and a signed hook [withdraw 1, send 1 to bob] that succeeds: credited, one announced withdrawal
	hookFail bool // valid recipient, but the deposit's hook fails (amount 1: undecodable bytes; amount 2: signed [withdraw 1, send too much]): minted, reclaimed, burnt, refunded
}
type c09Send struct{}
type c09Restart struct{}
type c09Withdraw struct {
	by    string
	amt   int64
	denom string
}

var c09Accts = []string{"alice", "bob", "stranger"}

func (c09Sys) Root() *c09State {
	w := world.NewL2(world.L2Options{
		Accounts: map[string]sdk.Coins{"alice": nil, "bob": nil, "executor": nil, "admin": nil,
			"stranger": sdk.NewCoins(sdk.NewInt64Coin(c09Native, 5))},
	})
	// the native token has display metadata in the bank, as a fee token usually has; that does not make it an L1 token
	w.BK.SetDenomMetaData(w.Ctx, banktypes.Metadata{Base: c09Native, Display: "min", Name: "native fee token", Symbol: "MIN",
		DenomUnits: []*banktypes.DenomUnit{{Denom: c09Native, Exponent: 0}, {Denom: "min", Exponent: 6}}})
	s := &c09State{ctx: w.Ctx, w: w, nextL1: 1, nextL2: 1, bal: map[string]int64{"stranger/" + c09Native: 5}, supply: map[string]int64{c09Native: 5}, pairs: map[string]string{}}
	return s
}

// the model is part of the state key: a change that turns an operation into a no-op on the stores must
// not make the successor look like an already visited state (its model differs, and Check has to see it)
func (c09Sys) Digest(s *c09State) [32]byte {
	return s.w.Digest(s.ctx, []byte(fmt.Sprint(s.nextL1, s.nextL2, s.bal, s.supply, s.pairs)))
}

func dn(d string) string {
	switch d {
	case c09L2x:
		return "l2x"
	case c09L2y:
		return "l2y"
	}
	return d
}

func (c09Sys) Letters(s *c09State) []engine.Letter {
	var ls []engine.Letter
	for _, valid := range []bool{true, false} {
		for _, amt := range []int64{1, 2} {
			for _, den := range []string{c09L2x, c09L2y} {
				for _, base := range []string{"uxx", "uzz"} {
					ls = append(ls, engine.Letter{Name: fmt.Sprintf("Deposit(validRecipient=%v,%d%s,base=%s)", valid, amt, dn(den), base), Data: c09Deposit{valid: valid, amt: amt, denom: den, base: base}})
				}
			}
		}
	}
	for _, amt := range []int64{1, 2} {
		ls = append(ls, engine.Letter{Name: fmt.Sprintf("Deposit(validRecipient=true,hook=failing,%dl2x,base=uxx)", amt), Data: c09Deposit{valid: true, amt: amt, denom: c09L2x, base: "uxx", hookFail: true}})
	}
	ls = append(ls, engine.Letter{Name: "Deposit(validRecipient=true,hook=[withdraw 1; send 1 to bob],2l2x,base=uxx)", Data: c09Deposit{valid: true, amt: 2, denom: c09L2x, base: "uxx", hookGood: true}})
	ls = append(ls, engine.Letter{Name: "Send(alice->bob,1l2x)", Data: c09Send{}})
	ls = append(ls, engine.Letter{Name: "RestartViaGenesis", Data: c09Restart{}})
	for _, by := range c09Accts {
		for _, den := range []string{c09L2x, c09Native, c09Unknown} {
			b := s.bal[by+"/"+den]
			seen := map[int64]bool{}
			for _, amt := range []int64{1, b, b + 1} {
				if amt <= 0 || seen[amt] {
					continue
				}
				seen[amt] = true
				rel := "1"
				if amt == b && b != 1 {
					rel = "balance"
				} else if amt == b+1 && amt != 1 {
					rel = "balance+1"
				}
				ls = append(ls, engine.Letter{Name: fmt.Sprintf("Withdraw(by=%s,%s,%s)", by, rel, dn(den)), Data: c09Withdraw{by, amt, den}})
			}
		}
	}
	return ls
}

func (c09Sys) Step(s *c09State, l engine.Letter) (*c09State, string, *engine.Violation) {
	ctx, _ := s.ctx.CacheContext()
	c := s.clone(ctx)
	before := s.w.Digest(s.ctx)
	switch d := l.Data.(type) {
	case c09Restart:
		if err := s.w.RestartViaGenesis(ctx); err != nil {
			return c, "error", viol("sequences-and-denom-pairs-survive-a-restart", "export / validate / import of the module genesis failed: %v", err)
		}
		return c, "ok", nil
	case c09Send:
		res := s.w.Deliver(ctx, banktypes.NewMsgSend(world.Addr("alice"), world.Addr("bob"), sdk.NewCoins(sdk.NewInt64Coin(c09L2x, 1))))
		if res.OK() {
			c.bal["alice/"+c09L2x]--
			c.bal["bob/"+c09L2x]++
			return c, "ok", nil
		}
		return c, "rejected", nil
	case c09Deposit:
		to := world.Addr("alice").String()
		if !d.valid {
			to = "not-an-address"
		}
		var data []byte
		if d.hookFail {
			data = []byte{0xde, 0xad}
			if acc := s.w.AK.GetAccount(ctx, world.Addr("alice")); d.amt >= 2 && acc != nil {
				// a correctly signed hook whose first message (a withdrawal of 1) would succeed and whose
				// second (a send of more than she holds) fails: nothing of it may stay
				alice := world.Addr("alice")
				key := world.SecpKey("alice")
				msgs := []sdk.Msg{
					opchildtypes.NewMsgInitiateTokenWithdrawal(alice.String(), " l1 recipient\n", sdk.NewInt64Coin(d.denom, 1)),
					banktypes.NewMsgSend(alice, world.Addr("bob"), sdk.NewCoins(sdk.NewInt64Coin(d.denom, 1_000_000))),
				}
				data = signHookTx(s.w, msgs, key, key.PubKey(), acc.GetAccountNumber(), acc.GetSequence(), ctx.ChainID())
			}
		}
		if d.hookGood {
			if acc := s.w.AK.GetAccount(ctx, world.Addr("alice")); acc != nil {
				alice := world.Addr("alice")
				key := world.SecpKey("alice")
				msgs := []sdk.Msg{
					opchildtypes.NewMsgInitiateTokenWithdrawal(alice.String(), " l1 recipient\n", sdk.NewInt64Coin(d.denom, 1)),
					banktypes.NewMsgSend(alice, world.Addr("bob"), sdk.NewCoins(sdk.NewInt64Coin(d.denom, 1))),
				}
				data = signHookTx(s.w, msgs, key, key.PubKey(), acc.GetAccountNumber(), acc.GetSequence(), ctx.ChainID())
			}
		}
		msg := opchildtypes.NewMsgFinalizeTokenDeposit(world.Addr("executor").String(), "l1sender", to, sdk.NewInt64Coin(d.denom, d.amt), s.nextL1, 7, d.base, data)
		res := s.w.Deliver(ctx, msg)
		if !res.OK() {
			return c, "error", viol("deposit-at-the-expected-sequence-is-processed", "deposit at the expected sequence failed: %v", res.Err)
		}
		c.nextL1++
		// frame of a processed deposit: both sequences, the first registration of the denom, the recipient's
		// balance and the supply of that denom; with a hook, the hook signer's account sequence
		fr := frameL2{accounts: map[string]sdk.AccAddress{"alice": world.Addr("alice")}, denoms: []string{d.denom}, nextL1: true, nextL2: true, pairOf: []string{d.denom}}
		if d.hookFail || d.hookGood {
			fr.sequenceOf = []sdk.AccAddress{world.Addr("alice")}
		}
		if d.hookGood {
			fr.accounts["bob"] = world.Addr("bob")
		}
		if left := fr.violations(s.w, s.ctx, ctx); len(left) > 0 {
			return c, "framed", tagged(viol("deposit-touches-nothing-else", "a processed deposit of %d%s (valid recipient=%v, failing hook=%v) also changed: %s", d.amt, dn(d.denom), d.valid, d.hookFail, strings.Join(left, "; ")), "frame", "deposit")
		}
		first, had := s.pairs[d.denom]
		if !had {
			c.pairs[d.denom] = d.base
			first = d.base
		}
		wevs := world.EventsOfType(res.Events, "initiate_token_withdrawal")
		if d.hookGood {
			// credited 2, then the hook withdrew 1 (announced once, at the shared sequence) and sent 1 on
			if len(wevs) != 1 {
				return c, "credited-hook", tagged(viol("withdrawal-announced-once", "a succeeding hook withdrew 1%s but the transaction carries %d withdrawal events", dn(d.denom), len(wevs)), "where", "hook")
			}
			if v := c09CheckWithdrawEvent(wevs[0], world.Addr("alice").String(), " l1 recipient\n", d.denom, first, 1, s.nextL2); v != nil {
				return c, "credited-hook", v
			}
			c.nextL2++
			c.bal["bob/"+d.denom]++
			c.supply[d.denom]++
			return c, "credited-hook", nil
		}
		if d.valid && d.hookFail {
			if len(wevs) != 1 {
				return c, "refunded", viol("refund-records-one-withdrawal", "%d withdrawal events for a deposit whose hook failed", len(wevs))
			}
			if v := c09CheckWithdrawEvent(wevs[0], to, "l1sender", d.denom, first, d.amt, s.nextL2); v != nil {
				return c, "refunded", v
			}
			c.nextL2++
			return c, "refunded-hook-failed", nil // no net mint: ledger unchanged (checked in every state)
		}
		if d.valid {
			if len(wevs) != 0 {
				return c, "credited", viol("harness-expectation", "valid recipient but refund event present")
			}
			c.bal["alice/"+d.denom] += d.amt
			c.supply[d.denom] += d.amt
			if had && first != d.base {
				return c, "credited-with-conflicting-base", nil
			}
			return c, "credited", nil
		}
		if len(wevs) != 1 {
			return c, "refunded", viol("refund-records-one-withdrawal", "%d withdrawal events for a refunded deposit", len(wevs))
		}
		if v := c09CheckWithdrawEvent(wevs[0], "not-an-address", "l1sender", d.denom, first, d.amt, s.nextL2); v != nil {
			return c, "refunded", v
		}
		c.nextL2++
		return c, "refunded", nil
	case c09Withdraw:
		msg := opchildtypes.NewMsgInitiateTokenWithdrawal(world.Addr(d.by).String(), " l1 recipient\n", sdk.NewInt64Coin(d.denom, d.amt))
		res := s.w.Deliver(ctx, msg)
		if res.Panicked {
			return c, "panic", viol("handler-panic", "InitiateTokenWithdrawal panicked: %s", res.PanicVal)
		}
		base, bridged := s.pairs[d.denom]
		if !res.OK() {
			if s.w.Digest(ctx) != before {
				return c, "rejected", viol("rejected-withdrawal-has-no-effect", "rejected withdrawal (%v) changed state (burn not undone?)", res.Err)
			}
			if bridged && s.bal[d.by+"/"+d.denom] >= d.amt {
				return c, "rejected-though-valid", nil
			}
			if !bridged && s.bal[d.by+"/"+d.denom] >= d.amt {
				return c, "rejected-non-l1-token", nil
			}
			return c, "rejected", nil
		}
		if !bridged {
			return c, "accepted", tagged(viol("only-l1-tokens-can-be-withdrawn", "withdrawal of %d%s accepted; the denom did not come from L1", d.amt, dn(d.denom)), "denom", dn(d.denom))
		}
		if s.bal[d.by+"/"+d.denom] < d.amt {
			return c, "accepted", viol("withdrawal-burns-exactly-the-amount", "withdrawal of %d accepted with balance %d", d.amt, s.bal[d.by+"/"+d.denom])
		}
		r := res.Resp.(*opchildtypes.MsgInitiateTokenWithdrawalResponse)
		if r.Sequence != s.nextL2 {
			return c, "accepted", viol("gap-free-l2-sequence", "withdrawal got L2 sequence %d, expected %d", r.Sequence, s.nextL2)
		}
		wevs := world.EventsOfType(res.Events, "initiate_token_withdrawal")
		if len(wevs) != 1 {
			return c, "accepted", viol("withdrawal-announced-once", "%d withdrawal events", len(wevs))
		}
		if v := c09CheckWithdrawEvent(wevs[0], world.Addr(d.by).String(), " l1 recipient\n", d.denom, base, d.amt, s.nextL2); v != nil {
			return c, "accepted", v
		}
		c.bal[d.by+"/"+d.denom] -= d.amt
		c.supply[d.denom] -= d.amt
		c.nextL2++
		// frame: the signer's balance of that denom, its supply and the L2 sequence — nothing else
		if left := (frameL2{accounts: map[string]sdk.AccAddress{d.by: world.Addr(d.by)}, denoms: []string{d.denom}, nextL2: true}).violations(s.w, s.ctx, ctx); len(left) > 0 {
			return c, "accepted", tagged(viol("withdrawal-removes-amount-from-signer-only", "an accepted withdrawal of %d%s by %s also changed: %s", d.amt, dn(d.denom), d.by, strings.Join(left, "; ")), "frame", "withdraw")
		}
		return c, "accepted", nil
	}
	panic("unknown letter")
}

func c09CheckWithdrawEvent(e sdk.Event, from, to, denom, base string, amt int64, seq uint64) *engine.Violation {
	want := map[string]string{"from": from, "to": to, "denom": denom, "base_denom": base, "amount": strconv.FormatInt(amt, 10), "l2_sequence": strconv.FormatUint(seq, 10)}
	for k, wv := range want {
		if got, ok := world.Attr(e, k); !ok || got != wv {
			return tagged(viol("withdrawal-event-is-faithful", "withdrawal event %s=%q, expected %q", k, got, wv), "attr", k)
		}
	}
	return nil
}

func (c09Sys) Check(s *c09State) *engine.Violation {
	for _, den := range []string{c09L2x, c09L2y, c09Native} {
		if got := s.w.BK.GetSupply(s.ctx, den).Amount.Int64(); got != s.supply[den] {
			return viol("supply-equals-credited-minus-withdrawn", "supply of %s is %d, ledger %d", dn(den), got, s.supply[den])
		}
		for _, a := range c09Accts {
			if got := s.w.BK.GetBalance(s.ctx, world.Addr(a), den).Amount.Int64(); got != s.bal[a+"/"+den] {
				return viol("withdrawal-removes-amount-from-signer-only", "%s holds %d%s, ledger %d", a, got, dn(den), s.bal[a+"/"+den])
			}
		}
		r, err := s.w.Q.BaseDenom(s.ctx, &opchildtypes.QueryBaseDenomRequest{Denom: den})
		want, has := s.pairs[den]
		if has != (err == nil) || (has && r.BaseDenom != want) {
			return viol("denom-mapping-never-changes", "BaseDenom(%s) = %v (err=%v), first mapping %q (set=%v)", dn(den), r, err, want, has)
		}
	}
	r2, err := s.w.Q.NextL2Sequence(s.ctx, &opchildtypes.QueryNextL2SequenceRequest{})
	if err != nil || r2.NextL2Sequence != s.nextL2 {
		return viol("gap-free-l2-sequence", "NextL2Sequence query %v, model %d", r2, s.nextL2)
	}
	return nil
}

func init() {
	register(&Check{ID: "C09", Level: "model_checking",
		Run: func(rc *engine.RunCtx) *engine.Result {
			res := engine.NewResult()
			rep, err := engine.Explore[*c09State](c09Sys{}, opts(rc, pick(rc, 6, 8)))
			if err != nil {
				res.HarnessErr = err
				return res
			}
			res.Absorb("c09", rep)
			res.Coverage["alphabet"] = "Deposit(next seq; recipient∈{valid,malformed}; amt∈{1,2}; denom∈{l2x,l2y}; baseDenom∈{uxx,uzz}) + deposits to a valid recipient with a failing hook (minted, reclaimed, burnt, refunded); Send(alice→bob); Withdraw(by∈{alice,bob,stranger}; amt∈{1,balance,balance+1}; denom∈{l2x, native umin, unknown})"
			res.Coverage["oracle"] = "supply and all balances = ledger (credited − withdrawn) in every state; accepted withdrawal ⇒ bridged denom, amount ≤ balance, response sequence = shared gap-free counter, exactly one faithful event whose base denom is the first mapping; rejected ⇒ digest unchanged; BaseDenom/NextL2Sequence queries = model"
			res.Assumptions = []string{"one bridge executor delivering at the expected sequence"}
			for _, k := range []string{"Withdraw/accepted", "Withdraw/rejected", "Withdraw/rejected-non-l1-token", "Deposit/credited", "Deposit/refunded", "Deposit/refunded-hook-failed", "Deposit/credited-with-conflicting-base"} {
				res.Require(res.OutcomeCount("c09", k) > 0, "outcome %s never occurred", k)
			}
			res.Require(res.OutcomeCount("c09", "Withdraw/rejected-though-valid") == 0, "a funded withdrawal of a bridged denom was rejected")
			return res
		},
		Replay: func(kind string, path []string) ([]string, *engine.Violation, error) {
			return engine.Replay[*c09State](c09Sys{}, path)
		},
	})
}
