package props

import (
	"fmt"
	"strings"
	"sync/atomic"
	"time"

	"cosmossdk.io/math"
	sdk "github.com/cosmos/cosmos-sdk/types"
	authtypes "github.com/cosmos/cosmos-sdk/x/auth/types"

	ophosttypes "github.com/initia-labs/OPinit/x/ophost/types"

	"verifmc/engine"
	"verifmc/ref"
	"verifmc/world"
)

// C03 — withdrawals cannot be forged: proof soundness and field binding (Mode S + Mode P).

const c03Period = 10 * time.Second

type c03Claim struct {
	Sender      string
	Bridge      uint64
	OutputIndex uint64
	Seq         uint64
	Proofs      [][]byte
	From, To    string
	Denom       string
	Amount      math.Int
	Version     []byte
	StorageRoot []byte
	BlockHash   []byte
}

func (c c03Claim) clone() c03Claim {
	d := c
	d.Proofs = make([][]byte, len(c.Proofs))
	for i, p := range c.Proofs {
		d.Proofs[i] = append([]byte{}, p...)
	}
	d.Version = append([]byte{}, c.Version...)
	d.StorageRoot = append([]byte{}, c.StorageRoot...)
	d.BlockHash = append([]byte{}, c.BlockHash...)
	return d
}

func (c c03Claim) msg() *ophosttypes.MsgFinalizeTokenWithdrawal {
	return &ophosttypes.MsgFinalizeTokenWithdrawal{
		Sender: c.Sender, BridgeId: c.Bridge, OutputIndex: c.OutputIndex, WithdrawalProofs: c.Proofs, From: c.From, To: c.To,
		Sequence: c.Seq, Amount: sdk.Coin{Denom: c.Denom, Amount: c.Amount}, Version: c.Version, StorageRoot: c.StorageRoot, LastBlockHash: c.BlockHash,
	}
}

type c03Out struct {
	Root [32]byte
	T    time.Time
}

type c03State struct {
	ctx     sdk.Context
	w       *world.L1
	outs    [2][]c03Out
	claimed map[string]bool
}

type c03Sys struct {
	n       int
	tree    *wtree // n leaves of bridge 1
	other   *wtree // 2 different leaves of bridge 1
	bitsPer int    // bit flips per byte (1 quick, 8 thorough)
	impl    bool   // trees built with the repository's helpers
	probes  atomic.Int64
	accepts atomic.Int64
	states  atomic.Int64
	baseOK  atomic.Int64
	perts   atomic.Int64 // number of distinct perturbations of the last family built
}

// newC03SysImpl: same system, but the committed trees are built with the repository's own helpers
// (what an off-chain prover linking this code would commit). If the formats drift from the
// published ones, the handler accepts such claims while the independent verifier rejects them.
func newC03SysImpl(n, bitsPer int) *c03Sys {
	y := newC03Sys(n, bitsPer)
	y.tree = mkTreeImpl(y.tree.Name, y.tree.Ws, y.tree.Version)
	y.other = mkTreeImpl(y.other.Name, y.other.Ws, y.other.Version)
	y.impl = true
	return y
}

func newC03Sys(n, bitsPer int) *c03Sys {
	bob := world.Addr("bob").String()
	var ws []wd
	for i := 0; i < n; i++ {
		ws = append(ws, wd{Bridge: 1, Seq: uint64(i + 1), From: fmt.Sprintf("l2user%d", i%2), To: bob, Denom: "uxx", Amount: uint64(2 + i%3)})
	}
	// one L2 sender is written the way a Move/EVM rollup writes accounts
	if n >= 3 {
		ws[1].From = "0x1"
	}
	// leaf hashes with extreme first bytes: the first leaf's hash starts with 0x00, the last one's with
	// 0xff (the L2 sender string is ground for it) — code that treats "looks empty" or "sorts first/last"
	// specially meets both
	grind := func(i int, first byte) {
		for k := 0; ; k++ {
			w := ws[i]
			w.From = fmt.Sprintf("l2user%d-%d", i%2, k)
			if w.leaf()[0] == first {
				ws[i] = w
				return
			}
		}
	}
	grind(0, 0x00)
	if n > 1 {
		grind(n-1, 0xff)
	}
	other := []wd{
		{Bridge: 1, Seq: 21, From: "l2other", To: world.Addr("alice").String(), Denom: "uxx", Amount: 7},
		{Bridge: 1, Seq: 22, From: "l2other", To: bob, Denom: "uyy", Amount: 3},
	}
	// the two-leaf tree is committed under version byte 0 (legal, and the value an omitted or emptied version
	// field could be mistaken for), the others under 1
	version := byte(1)
	if n == 2 {
		version = 0
	}
	return &c03Sys{n: n, tree: mkTree(fmt.Sprintf("T%d", n), ws, version), other: mkTree("Tother", other, 1), bitsPer: bitsPer}
}

type c03Propose struct {
	b    uint64
	tree string
}
type c03Delete struct{}
type c03Advance struct{ d time.Duration }
type c03ClaimValid struct{ leaf int }

func (y *c03Sys) Root() *c03State {
	w := newL1TwoBridges(c03Period)
	for _, c := range []sdk.Coin{world.Coin("uxx", 90), world.Coin("uyy", 90)} {
		for b := uint64(1); b <= 2; b++ {
			c2 := c
			c2.Amount = c.Amount.QuoRaw(2)
			if res := w.Deliver(w.Ctx, ophosttypes.NewMsgInitiateTokenDeposit(world.Addr("alice").String(), b, "l2addr", c2, nil)); !res.OK() {
				panic(res.Err)
			}
		}
	}
	// the escrow also holds far more than 2^64 (several deposits / plain transfers can add up to
	// that), so that a forged amount above 64 bits is not masked by "insufficient funds"
	huge, _ := math.NewIntFromString("1000000000000000000000000")
	hc := sdk.NewCoins(sdk.NewCoin("uxx", huge))
	if err := w.BK.MintCoins(w.Ctx, authtypes.Minter, hc); err != nil {
		panic(err)
	}
	if err := w.BK.SendCoinsFromModuleToAccount(w.Ctx, authtypes.Minter, ref.BridgeAddress(1), hc); err != nil {
		panic(err)
	}
	return &c03State{ctx: w.Ctx, w: w, claimed: map[string]bool{}}
}

// the model is part of the state key: a change that turns an operation into a no-op on the stores must
// not make the successor look like an already visited state (its model differs, and Check has to see it)
func (y *c03Sys) Digest(s *c03State) [32]byte {
	return s.w.Digest(s.ctx, []byte(fmt.Sprint(s.outs, s.claimed)))
}

func (y *c03Sys) Letters(s *c03State) []engine.Letter {
	ls := []engine.Letter{
		{Name: "Propose(b1,Tn)", Data: c03Propose{1, "Tn"}},
		{Name: "Propose(b1,Tother)", Data: c03Propose{1, "Tother"}},
		{Name: "Propose(b2,sameRootAsTn)", Data: c03Propose{2, "Tn"}},
		{Name: "Delete(b1,1)", Data: c03Delete{}},
		{Name: "Advance(10s)", Data: c03Advance{c03Period}},
		{Name: "Advance(4s)", Data: c03Advance{4 * time.Second}},
		{Name: "ClaimValid(leaf0,idx1)", Data: c03ClaimValid{0}},
	}
	if y.n > 1 {
		ls = append(ls, engine.Letter{Name: "ClaimValid(leafLast,idx1)", Data: c03ClaimValid{y.n - 1}})
	}
	return ls
}

func (y *c03Sys) base(t *wtree, leaf int, idx uint64) c03Claim {
	w := t.Ws[leaf]
	return c03Claim{Sender: world.Addr("stranger").String(), Bridge: w.Bridge, OutputIndex: idx, Seq: w.Seq, Proofs: t.Tree.Proof(leaf), From: w.From, To: w.To,
		Denom: w.Denom, Amount: math.NewIntFromUint64(w.Amount), Version: []byte{t.Version}, StorageRoot: append([]byte{}, t.StorageRoot[:]...), BlockHash: append([]byte{}, t.BlockHash...)}
}

// verifier: the independent decision whether a claim may be accepted in state s.
func (y *c03Sys) verifierAccepts(s *c03State, m c03Claim) bool {
	if m.Bridge != 1 && m.Bridge != 2 {
		return false
	}
	outs := s.outs[m.Bridge-1]
	if m.OutputIndex < 1 || m.OutputIndex > uint64(len(outs)) {
		return false
	}
	o := outs[m.OutputIndex-1]
	if s.ctx.BlockTime().Before(o.T.Add(c03Period)) {
		return false
	}
	if len(m.Version) != 1 || len(m.StorageRoot) != 32 || len(m.BlockHash) != 32 {
		return false
	}
	if ref.OutputRoot(m.Version[0], m.StorageRoot, m.BlockHash) != o.Root {
		return false
	}
	if m.Amount.IsNil() || !m.Amount.IsUint64() || !m.Amount.IsPositive() {
		return false
	}
	leaf := ref.Leaf(m.Bridge, m.Seq, m.From, m.To, m.Denom, m.Amount.Uint64())
	root := ref.RootFromProof(leaf, m.Proofs)
	if string(root[:]) != string(m.StorageRoot) {
		return false
	}
	if s.claimed[fmt.Sprintf("%d/%x", m.Bridge, leaf)] {
		return false
	}
	return true
}

func (y *c03Sys) Step(s *c03State, l engine.Letter) (*c03State, string, *engine.Violation) {
	ctx, _ := s.ctx.CacheContext()
	c := &c03State{ctx: ctx, w: s.w, outs: s.outs, claimed: s.claimed}
	switch d := l.Data.(type) {
	case c03Advance:
		c.ctx = world.Advance(ctx, d.d)
		return c, "ok", nil
	case c03Propose:
		t := y.tree
		if d.tree == "Tother" {
			t = y.other
		}
		next := uint64(len(s.outs[d.b-1])) + 1
		res := s.w.Deliver(ctx, ophosttypes.NewMsgProposeOutput(world.Addr("proposer").String(), d.b, next, uint64(ctx.BlockHeight())*10+next, t.OutputRoot[:]))
		if !res.OK() {
			return c, "rejected", nil
		}
		c.outs[d.b-1] = append(append([]c03Out{}, s.outs[d.b-1]...), c03Out{t.OutputRoot, ctx.BlockTime()})
		return c, "accepted", nil
	case c03Delete:
		res := s.w.Deliver(ctx, ophosttypes.NewMsgDeleteOutput(world.Addr("challenger").String(), 1, 1))
		if !res.OK() {
			return c, "rejected", nil
		}
		c.outs[0] = nil
		return c, "accepted", nil
	case c03ClaimValid:
		m := y.base(y.tree, d.leaf, 1)
		want := y.verifierAccepts(s, m)
		res := s.w.Deliver(ctx, m.msg())
		if res.OK() && !want {
			return c, "accepted", viol("accepted-claim-is-verifier-valid", "claim accepted that the independent verifier rejects")
		}
		if res.OK() {
			nc := map[string]bool{}
			for k, v := range s.claimed {
				nc[k] = v
			}
			lf := y.tree.Ws[d.leaf].leaf()
			nc[fmt.Sprintf("1/%x", lf)] = true
			c.claimed = nc
			return c, "accepted", nil
		}
		if want {
			return c, "rejected-though-valid", nil
		}
		return c, "rejected", nil
	}
	panic("unknown letter")
}

type c03Pert struct {
	name  string
	field string
	rep   bool // representative of its field (used in pairs)
	f     func(c *c03Claim)
}

func flipBit(b []byte, i, bit int) { b[i] ^= 1 << uint(bit) }

// perturbations of a valid claim for leaf `leaf` of y.tree.
func (y *c03Sys) perturbations(leaf int) []c03Pert {
	var ps []c03Pert
	add := func(field, name string, rep bool, f func(c *c03Claim)) {
		ps = append(ps, c03Pert{name: field + ":" + name, field: field, rep: rep, f: f})
	}
	w := y.tree.Ws[leaf]
	otherLeaf := y.tree.Ws[(leaf+1)%y.n]
	alice := world.Addr("alice").String()
	add("bridge", "other-existing", true, func(c *c03Claim) { c.Bridge = 2 })
	add("bridge", "nonexistent", false, func(c *c03Claim) { c.Bridge = 9 })
	add("seq", "+1", true, func(c *c03Claim) { c.Seq++ })
	add("seq", "-1", false, func(c *c03Claim) { c.Seq-- })
	add("seq", "other-leaf", false, func(c *c03Claim) { c.Seq = otherLeaf.Seq + 100 })
	add("from", "other", true, func(c *c03Claim) { c.From = "l2attacker" })
	add("from", "case", false, func(c *c03Claim) { c.From = strings.ToUpper(c.From) })
	add("from", "to-value", false, func(c *c03Claim) { c.From = c.To })
	add("from", "leading-space", false, func(c *c03Claim) { c.From = " " + c.From })
	add("from", "trailing-newline", false, func(c *c03Claim) { c.From = c.From + "\n" })
	add("from", "trailing-nul", false, func(c *c03Claim) { c.From = c.From + "\x00" })
	add("from", "zero-padded", false, func(c *c03Claim) {
		// the same number to a reader of hex account addresses, another string
		if strings.HasPrefix(c.From, "0x") {
			c.From = "0x0" + c.From[2:]
		} else {
			c.From = "0" + c.From
		}
	})
	add("to", "trailing-space", false, func(c *c03Claim) { c.To = c.To + " " })
	add("to", "leading-tab", false, func(c *c03Claim) { c.To = "\t" + c.To })
	add("to", "other-valid", true, func(c *c03Claim) { c.To = alice })
	add("to", "uppercase-bech32", false, func(c *c03Claim) { c.To = strings.ToUpper(c.To) })
	add("to", "sender", false, func(c *c03Claim) { c.To = c.Sender })
	add("denom", "other", true, func(c *c03Claim) { c.Denom = "uyy" })
	// the L2 name of the same token on this bridge (a token pair for it exists once it was deposited)
	add("denom", "l2-denom-of-its-pair", false, func(c *c03Claim) { c.Denom = ref.L2Denom(c.Bridge, c.Denom) })
	add("amount", "+1", true, func(c *c03Claim) { c.Amount = c.Amount.AddRaw(1) })
	add("amount", "-1", false, func(c *c03Claim) { c.Amount = c.Amount.SubRaw(1) })
	add("amount", "other-leaf", false, func(c *c03Claim) { c.Amount = math.NewIntFromUint64(w.Amount + 3) })
	add("amount", "+2^64", false, func(c *c03Claim) { c.Amount = c.Amount.Add(math.NewIntFromUint64(1 << 63).MulRaw(2)) })
	np := len(y.tree.Tree.Proof(leaf))
	for e := 0; e < np; e++ {
		e := e
		for by := 0; by < 32; by++ {
			for bit := 0; bit < y.bitsPer; bit++ {
				by, bit := by, bit
				add("proof", fmt.Sprintf("el%d-byte%d-bit%d", e, by, bit), by == 0 && bit == 0 && e == 0, func(c *c03Claim) { flipBit(c.Proofs[e], by, bit) })
			}
		}
		add("proof", fmt.Sprintf("el%d-replaced-by-own-leaf", e), false, func(c *c03Claim) { l := w.leaf(); c.Proofs[e] = l[:] })
		if e+1 < np {
			add("proof", fmt.Sprintf("swap-el%d-el%d", e, e+1), false, func(c *c03Claim) { c.Proofs[e], c.Proofs[e+1] = c.Proofs[e+1], c.Proofs[e] })
			add("proof", fmt.Sprintf("el%d-replaced-by-sibling-of-level%d", e, e+1), false, func(c *c03Claim) { c.Proofs[e] = append([]byte{}, c.Proofs[e+1]...) })
		}
		add("proof", fmt.Sprintf("el%d-truncated-to-31-bytes", e), false, func(c *c03Claim) { c.Proofs[e] = c.Proofs[e][:31] })
	}
	if np > 0 {
		add("prooflen", "first-dropped", true, func(c *c03Claim) { c.Proofs = c.Proofs[1:] })
		add("prooflen", "last-dropped", false, func(c *c03Claim) { c.Proofs = c.Proofs[:len(c.Proofs)-1] })
		add("prooflen", "last-duplicated", false, func(c *c03Claim) { c.Proofs = append(c.Proofs, append([]byte{}, c.Proofs[len(c.Proofs)-1]...)) })
		add("prooflen", "empty", false, func(c *c03Claim) { c.Proofs = nil })
	}
	add("prooflen", "zero-appended", np == 0, func(c *c03Claim) { c.Proofs = append(c.Proofs, make([]byte, 32)) })
	add("prooflen", "own-leaf-appended", false, func(c *c03Claim) { l := w.leaf(); c.Proofs = append(c.Proofs, l[:]) })
	add("prooflen", "storage-root-appended", false, func(c *c03Claim) { c.Proofs = append(c.Proofs, append([]byte{}, c.StorageRoot...)) })
	add("index", "2", true, func(c *c03Claim) { c.OutputIndex = 2 })
	add("index", "3", false, func(c *c03Claim) { c.OutputIndex = 3 })
	add("index", "0", false, func(c *c03Claim) { c.OutputIndex = 0 })
	add("version", "+1", true, func(c *c03Claim) { c.Version[0]++ })
	add("version", "zero", false, func(c *c03Claim) { c.Version[0] = 0 })
	for bit := 0; bit < 8; bit++ {
		bit := bit
		add("version", fmt.Sprintf("bit%d", bit), false, func(c *c03Claim) { c.Version[0] ^= 1 << uint(bit) })
	}
	add("version", "empty", false, func(c *c03Claim) { c.Version = nil })
	add("version", "two-bytes", false, func(c *c03Claim) { c.Version = append(c.Version, 0) })
	for by := 0; by < 32; by++ {
		for bit := 0; bit < y.bitsPer; bit++ {
			by, bit := by, bit
			add("storageroot", fmt.Sprintf("byte%d-bit%d", by, bit), by == 31 && bit == 0, func(c *c03Claim) { flipBit(c.StorageRoot, by, bit) })
			add("blockhash", fmt.Sprintf("byte%d-bit%d", by, bit), by == 31 && bit == 0, func(c *c03Claim) { flipBit(c.BlockHash, by, bit) })
		}
	}
	add("storageroot", "other-tree", false, func(c *c03Claim) { c.StorageRoot = append([]byte{}, y.other.StorageRoot[:]...) })
	add("storageroot", "33-bytes", false, func(c *c03Claim) { c.StorageRoot = append(c.StorageRoot, 0) })
	add("blockhash", "other-tree", false, func(c *c03Claim) { c.BlockHash = append([]byte{}, y.other.BlockHash...) })
	add("blockhash", "31-bytes", false, func(c *c03Claim) { c.BlockHash = c.BlockHash[:31] })
	// whole-preimage swaps (multi-field): other tree's preimage, with and without its proof
	add("preimage", "other-tree-roots", true, func(c *c03Claim) {
		c.StorageRoot = append([]byte{}, y.other.StorageRoot[:]...)
		c.BlockHash = append([]byte{}, y.other.BlockHash...)
	})
	add("preimage", "other-tree-roots-and-proof", false, func(c *c03Claim) {
		c.StorageRoot = append([]byte{}, y.other.StorageRoot[:]...)
		c.BlockHash = append([]byte{}, y.other.BlockHash...)
		c.Proofs = y.other.Tree.Proof(0)
	})
	add("preimage", "swap-from-to", false, func(c *c03Claim) { c.From, c.To = c.To, c.From })
	return ps
}

// probe executes one claim on a throw-away branch and compares with the verifier.
func (y *c03Sys) probe(s *c03State, m c03Claim, label string) *engine.Violation {
	y.probes.Add(1)
	want := y.verifierAccepts(s, m)
	ctx, _ := s.ctx.CacheContext()
	before := s.w.Digest(ctx)
	var toAddr sdk.AccAddress
	if a, err := s.w.AK.AddressCodec().StringToBytes(m.To); err == nil {
		toAddr = a
	}
	tb, eb := math.ZeroInt(), math.ZeroInt()
	if toAddr != nil && m.Bridge > 0 && sdk.ValidateDenom(m.Denom) == nil {
		tb = s.w.BK.GetBalance(ctx, toAddr, m.Denom).Amount
		eb = s.w.BK.GetBalance(ctx, ref.BridgeAddress(m.Bridge), m.Denom).Amount
	}
	res := s.w.Deliver(ctx, m.msg())
	if res.OK() {
		y.accepts.Add(1)
		if !want {
			return tagged(viol("accepted-claim-is-verifier-valid", "perturbed claim [%s] was accepted; the independent verifier rejects it", label), "perturbation", label)
		}
		if toAddr == nil || !s.w.BK.GetBalance(ctx, toAddr, m.Denom).Amount.Equal(tb.Add(m.Amount)) || !s.w.BK.GetBalance(ctx, ref.BridgeAddress(m.Bridge), m.Denom).Amount.Equal(eb.Sub(m.Amount)) {
			return viol("accepted-claim-pays-claimed-amount-to-claimed-recipient", "claim [%s] accepted but balances moved differently", label)
		}
		lf := ref.Leaf(m.Bridge, m.Seq, m.From, m.To, m.Denom, m.Amount.Uint64())
		if r, err := s.w.Q.Claimed(ctx, &ophosttypes.QueryClaimedRequest{BridgeId: m.Bridge, WithdrawalHash: lf[:]}); err != nil || !r.Claimed {
			return viol("accepted-claim-is-recorded", "claim [%s] accepted but not recorded as claimed", label)
		}
		return nil
	}
	if s.w.Digest(ctx) != before {
		return tagged(viol("rejected-claim-has-no-effect", "rejected claim [%s] changed state (%v)", label, res.Err), "perturbation", label)
	}
	return nil
}

func (y *c03Sys) Check(s *c03State) *engine.Violation {
	y.states.Add(1)
	for leaf := 0; leaf < y.n; leaf++ {
		base := y.base(y.tree, leaf, 1)
		if v := y.probe(s, base, fmt.Sprintf("leaf%d:unperturbed", leaf)); v != nil {
			return v
		}
		if y.verifierAccepts(s, base) {
			// non-vacuity: the unperturbed claim must be accepted here, so that each perturbation is the only reason to reject
			ctx, _ := s.ctx.CacheContext()
			if res := s.w.Deliver(ctx, base.msg()); res.OK() {
				y.baseOK.Add(1)
			}
		}
		ps := y.perturbations(leaf)
		y.perts.Store(int64(len(ps)))
		// the full family is applied where output 1 of bridge 1 is final (every other gate is then
		// the only reason for a reject); elsewhere only the field representatives are probed
		full := len(s.outs[0]) >= 1 && !s.ctx.BlockTime().Before(s.outs[0][0].T.Add(c03Period))
		for _, p := range ps {
			if !full && !p.rep {
				continue
			}
			m := base.clone()
			p.f(&m)
			if v := y.probe(s, m, fmt.Sprintf("leaf%d:%s", leaf, p.name)); v != nil {
				return v
			}
		}
		// pairs of representatives from different fields
		var reps []c03Pert
		for _, p := range ps {
			if p.rep {
				reps = append(reps, p)
			}
		}
		for i := 0; i < len(reps); i++ {
			for j := i + 1; j < len(reps); j++ {
				if reps[i].field == reps[j].field {
					continue
				}
				m := base.clone()
				reps[i].f(&m)
				reps[j].f(&m)
				if v := y.probe(s, m, fmt.Sprintf("leaf%d:%s+%s", leaf, reps[i].name, reps[j].name)); v != nil {
					return v
				}
			}
		}
	}
	return nil
}

func init() {
	register(&Check{ID: "C03", Level: "model_checking",
		Run: func(rc *engine.RunCtx) *engine.Result {
			res := engine.NewResult()
			sizes := []int{1, 2, 5}
			bits := 1
			depth := 4
			if rc.Thorough() {
				sizes = []int{1, 2, 3, 4, 5, 6, 7, 8, 9}
				bits = 8
				depth = 5
			}
			var probes, accepts, baseOK int64
			for i, n := range sizes {
				y := newC03Sys(n, bits)
				o := opts(rc, depth)
				// the remaining budget is shared equally by the remaining sizes
				o.Deadline = time.Now().Add(time.Until(rc.Deadline()) / time.Duration(len(sizes)-i))
				name := fmt.Sprintf("tree=%d", n)
				rep, err := engine.Explore[*c03State](y, o)
				if err != nil {
					res.HarnessErr = err
					return res
				}
				res.Absorb(name, rep)
				probes += y.probes.Load()
				accepts += y.accepts.Load()
				baseOK += y.baseOK.Load()
				res.Coverage["perturbations/"+name] = map[string]any{"oracle_states": y.states.Load(), "probes": y.probes.Load(), "accepted": y.accepts.Load(), "unperturbed_accepted": y.baseOK.Load(), "single_and_multi_perturbations_per_leaf": y.perts.Load()}
				res.Require(y.baseOK.Load() > 0, "%s: the unperturbed claim was never accepted", name)
				res.Require(res.OutcomeCount(name, "ClaimValid/rejected-though-valid") == 0, "%s: a verifier-valid claim was rejected", name)
			}
			// the same matrix over trees committed with the repository's own helper functions
			{
				y := newC03SysImpl(3, 1)
				o := opts(rc, 3)
				if rc.Thorough() {
					o = opts(rc, 4)
				}
				rep, err := engine.Explore[*c03State](y, o)
				if err != nil {
					res.HarnessErr = err
					return res
				}
				res.Absorb("tree=3/prover-uses-repository-helpers", rep)
				probes += y.probes.Load()
				accepts += y.accepts.Load()
				res.Coverage["perturbations/tree=3/prover-uses-repository-helpers"] = map[string]any{"oracle_states": y.states.Load(), "probes": y.probes.Load(), "accepted": y.accepts.Load(), "unperturbed_accepted": y.baseOK.Load()}
			}
			res.Coverage["probes"] = probes
			res.Coverage["probes_accepted"] = accepts
			res.Coverage["alphabet"] = "state shaping: Propose(b1,Tn) Propose(b1,Tother) Propose(b2,same root) Delete(b1,1) Advance(4s|10s) ClaimValid(leaf0|leafLast); probe family in every state × every leaf: single perturbations of bridge id, sequence, sender, recipient, denom, amount (incl. +2^64), every proof element (bit flips, replacement, swap, truncation), proof length, output index, version, storage root, block hash, whole preimage; pairs of field representatives"
			res.Coverage["oracle"] = "accepted ⇒ independent verifier (own SHA3, leaf, node, output root) accepts in the model's oracle state ∧ balances move by the claimed amount to the claimed recipient ∧ claim recorded; rejected ⇒ digest unchanged"
			res.Assumptions = []string{"tree sizes as listed, every leaf position; bit flips: one per byte (quick) / all 256 (thorough)"}
			return res
		},
		Replay: func(kind string, path []string) ([]string, *engine.Violation, error) {
			if kind == "tree=3/prover-uses-repository-helpers" {
				return engine.Replay[*c03State](newC03SysImpl(3, 1), path)
			}
			var n int
			fmt.Sscanf(kind, "tree=%d", &n)
			if n == 0 {
				return nil, nil, fmt.Errorf("unknown replay kind %q", kind)
			}
			o, v, err := engine.Replay[*c03State](newC03Sys(n, 1), path)
			if v == nil && err == nil {
				o, v, err = engine.Replay[*c03State](newC03Sys(n, 8), path)
			}
			return o, v, err
		},
	})
}
