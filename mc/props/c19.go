package props

import (
	"bytes"
	"encoding/json"
	"fmt"
	"strings"
	"sync/atomic"
	"time"

	sdk "github.com/cosmos/cosmos-sdk/types"

	ophosttypes "github.com/initia-labs/OPinit/x/ophost/types"

	"verifmc/engine"
	"verifmc/world"
)

// C19 — permissioned IBC channel admin follows the challenger; no channel capture.

const c19Port = "transfer"
const c19Port2 = "icqhost"

// channels are named port/channel-id when the port is not "transfer"; transfer's channel-3 never
// exists; icqhost/channel-1 shares its channel id with transfer's channel-1
var c19Channels = []string{"channel-1", "channel-2", "channel-3", c19Port2 + "/channel-1"}

func c19Split(name string) (port, ch string) {
	if i := strings.IndexByte(name, '/'); i >= 0 {
		return name[:i], name[i+1:]
	}
	return c19Port, name
}

type c19Meta struct {
	name string
	raw  []byte
}

func c19Entry(name string) string {
	port, ch := c19Split(name)
	return fmt.Sprintf(`{"port_id":"%s","channel_id":"%s"}`, port, ch)
}

var c19Menu = []c19Meta{
	{"P[c1]", []byte(`{"perm_channels":[` + c19Entry("channel-1") + `]}`)},
	{"P[c1,c2]", []byte(`{"perm_channels":[` + c19Entry("channel-1") + `,` + c19Entry("channel-2") + `]}`)},
	{"P[c2,c1]", []byte(`{"perm_channels":[` + c19Entry("channel-2") + `,` + c19Entry("channel-1") + `]}`)},
	{"P[c2,c3-missing]", []byte(`{"perm_channels":[` + c19Entry("channel-2") + `,` + c19Entry("channel-3") + `]}`)},
	{"P[]", []byte(`{"perm_channels":[]}`)},
	{"P[icq-c1]", []byte(`{"perm_channels":[` + c19Entry(c19Port2+"/channel-1") + `]}`)},
	{"P[c1,icq-c1]", []byte(`{"perm_channels":[` + c19Entry("channel-1") + `,` + c19Entry(c19Port2+"/channel-1") + `]}`)},
	// a documented list of nearly the maximal accepted length (insignificant white space before the closing brace)
	{"P[c1]-padded-to-5000-bytes", append(append([]byte(`{"perm_channels":[`+c19Entry("channel-1")+`]`), bytes.Repeat([]byte(" "), 5000-len(`{"perm_channels":[`+c19Entry("channel-1")+`]`)-1)...), '}')},
	{"P[c1,c1]", []byte(`{"perm_channels":[` + c19Entry("channel-1") + `,` + c19Entry("channel-1") + `]}`)},
	{"N-extra-field", []byte(`{"perm_channels":[` + c19Entry("channel-1") + `],"note":"x"}`)},
	{"N-extra-field-in-entry", []byte(`{"perm_channels":[{"port_id":"transfer","channel_id":"channel-2","admin":"me"}]}`)},
	{"A-duplicate-key", []byte(`{"perm_channels":[],"perm_channels":[` + c19Entry("channel-1") + `]}`)},
	{"N-other-case-only", []byte(`{"Perm_Channels":[` + c19Entry("channel-1") + `]}`)},
	{"A-other-case-next-to-exact", []byte(`{"perm_channels":[],"PERM_CHANNELS":[` + c19Entry("channel-2") + `]}`)},
	{"A-null-list", []byte(`{"perm_channels":null}`)},
	{"A-entry-missing-channel-id", []byte(`{"perm_channels":[{"port_id":"transfer"}]}`)},
	{"A-entry-field-case", []byte(`{"perm_channels":[{"PORT_ID":"transfer","Channel_Id":"channel-2"}]}`)},
	{"N-top-level-array", []byte(`[` + c19Entry("channel-1") + `]`)},
	{"N-not-json", []byte(`perm_channels: channel-1`)},
	{"N-valid-object-then-more-bytes", []byte(`{"perm_channels":[` + c19Entry("channel-2") + `]}{"note":"v2"}`)},
	{"N-valid-object-then-comma", []byte(`{"perm_channels":[` + c19Entry("channel-1") + `]},`)},
	{"N-truncated", []byte(`{"perm_channels":[` + c19Entry("channel-1"))},
	{"N-other-object", []byte(`{"name":"my bridge"}`)},
	{"N-wrong-type", []byte(`{"perm_channels":"channel-1"}`)},
	{"empty", nil},
	{"too-long", append([]byte(`{"perm_channels":[`+c19Entry("channel-1")+`],"pad":"`), append(bytes.Repeat([]byte("x"), ophosttypes.MaxMetadataLength), []byte(`"}`)...)...)},
}

// letters of the search use a representative subset; the whole menu is probed in every state.
var c19LetterMenu = []string{"P[c1]", "P[c1,c2]", "P[c2,c3-missing]", "P[icq-c1]", "P[c1,icq-c1]", "A-other-case-next-to-exact", "N-not-json", "empty"}

func c19MetaByName(n string) c19Meta {
	for _, m := range c19Menu {
		if m.name == n {
			return m
		}
	}
	panic(n)
}

// classify reads metadata independently of the hook's parser: P = the documented structure,
// N = clearly not it, A = the documentation does not say.
func c19Classify(md []byte) (class string, chans []string) {
	if len(md) == 0 {
		return "N", nil
	}
	dec := json.NewDecoder(bytes.NewReader(md))
	tok, err := dec.Token()
	if err != nil {
		return "N", nil
	}
	if d, ok := tok.(json.Delim); !ok || d != '{' {
		if !json.Valid(md) {
			return "N", nil
		}
		return "N", nil
	}
	if !json.Valid(md) {
		return "N", nil
	}
	// collect top-level keys with the token stream (duplicates and case are visible here)
	var keys []string
	var rawVals []json.RawMessage
	for dec.More() {
		kt, err := dec.Token()
		if err != nil {
			return "N", nil
		}
		k, _ := kt.(string)
		var rv json.RawMessage
		if err := dec.Decode(&rv); err != nil {
			return "N", nil
		}
		keys = append(keys, k)
		rawVals = append(rawVals, rv)
	}
	any := false
	for _, k := range keys {
		if strings.EqualFold(k, "perm_channels") {
			any = true
		}
	}
	if !any {
		return "N", nil
	}
	// a key that is no spelling of perm_channels at all is an unknown field: the hook parses
	// strictly, so such metadata is not the documented structure (N); other spellings and
	// duplicates of the key are A
	for _, k := range keys {
		if !strings.EqualFold(k, "perm_channels") {
			return "N", nil
		}
	}
	// without the documented key itself (only other spellings of it) the metadata is not the documented
	// structure; the documented key next to other spellings or repeated stays A
	exact := false
	for _, k := range keys {
		if k == "perm_channels" {
			exact = true
		}
	}
	if !exact {
		return "N", nil
	}
	if len(keys) != 1 {
		return "A", nil
	}
	if strings.TrimSpace(string(rawVals[0])) == "null" {
		return "A", nil
	}
	var list []map[string]json.RawMessage
	if err := json.Unmarshal(rawVals[0], &list); err != nil || list == nil {
		var s string
		if json.Unmarshal(rawVals[0], &s) == nil {
			return "N", nil // wrong type
		}
		return "A", nil
	}
	for _, e := range list {
		for k := range e {
			if !strings.EqualFold(k, "port_id") && !strings.EqualFold(k, "channel_id") {
				return "N", nil // unknown field inside an entry
			}
		}
		if len(e) != 2 {
			return "A", nil
		}
		var port, ch string
		pr, ok1 := e["port_id"]
		cr, ok2 := e["channel_id"]
		if !ok1 || !ok2 || json.Unmarshal(pr, &port) != nil || json.Unmarshal(cr, &ch) != nil {
			return "A", nil
		}
		switch port {
		case c19Port:
			chans = append(chans, ch)
		case c19Port2:
			chans = append(chans, port+"/"+ch)
		default:
			return "A", nil
		}
	}
	return "P", chans
}

type c19Bridge struct {
	Challenger string
	Meta       string // menu name
}

type c19State struct {
	ctx sdk.Context
	w   *world.L1
	br  []c19Bridge
}

type c19Sys struct {
	probes atomic.Int64
	grants atomic.Int64
}

type c19Create struct{ meta, chal string }
type c19UpdMeta struct {
	b    int
	meta string
}
type c19UpdChal struct {
	b    int
	chal string
}
type c19Send struct{ ch string }

func (y *c19Sys) Root() *c19State {
	w := world.NewL1(world.L1Options{Accounts: map[string]sdk.Coins{"proposer": nil, "creator": nil, "submitter": nil, "chX": nil, "chY": nil}})
	w.Perm.SetChannelSeq(w.Ctx, c19Port, "channel-1", 1)
	w.Perm.SetChannelSeq(w.Ctx, c19Port, "channel-2", 1)
	w.Perm.SetChannelSeq(w.Ctx, c19Port2, "channel-1", 1)
	return &c19State{ctx: w.Ctx, w: w}
}

// the model is part of the state key: a change that turns an operation into a no-op on the stores must
// not make the successor look like an already visited state (its model differs, and Check has to see it)
func (y *c19Sys) Digest(s *c19State) [32]byte { return s.w.Digest(s.ctx, []byte(fmt.Sprint(s.br))) }

func (y *c19Sys) Letters(s *c19State) []engine.Letter {
	var ls []engine.Letter
	if len(s.br) < 2 {
		for _, m := range c19LetterMenu {
			for _, c := range []string{"chX", "chY"} {
				ls = append(ls, engine.Letter{Name: fmt.Sprintf("CreateBridge(meta=%s,challenger=%s)", m, c), Data: c19Create{m, c}})
			}
		}
	}
	for b := range s.br {
		for _, m := range c19LetterMenu {
			ls = append(ls, engine.Letter{Name: fmt.Sprintf("UpdateMetadata(b%d,%s)", b+1, m), Data: c19UpdMeta{b, m}})
		}
		for _, c := range []string{"chX", "chY"} {
			ls = append(ls, engine.Letter{Name: fmt.Sprintf("UpdateChallenger(b%d,%s)", b+1, c), Data: c19UpdChal{b, c}})
		}
	}
	for _, ch := range c19Channels[:2] {
		ls = append(ls, engine.Letter{Name: fmt.Sprintf("ChannelSend(%s)", ch), Data: c19Send{ch}})
	}
	return ls
}

type c19Chan struct {
	exists bool
	seq    uint64
	admin  string // account name or ""
}

func (s *c19State) channels(ctx sdk.Context) map[string]c19Chan {
	out := map[string]c19Chan{}
	for _, name := range c19Channels {
		port, ch := c19Split(name)
		seq, ok := s.w.Perm.GetNextSequenceSend(ctx, port, ch)
		c := c19Chan{exists: ok, seq: seq}
		if a := s.w.Perm.Admin(ctx, port, ch); a != nil {
			c.admin = "other"
			for _, n := range []string{"chX", "chY"} {
				if world.Addr(n).Equals(a) {
					c.admin = n
				}
			}
		}
		out[name] = c
	}
	return out
}

// oracle for one executed operation on a branch. op ∈ create | meta | chal.
func (y *c19Sys) judge(op string, md []byte, challenger string, before, after map[string]c19Chan, ok bool, label string) *engine.Violation {
	class, listed := c19Classify(md)
	changed := []string{}
	for _, ch := range c19Channels {
		if before[ch].admin != after[ch].admin {
			changed = append(changed, ch)
		}
		if before[ch].exists != after[ch].exists || before[ch].seq != after[ch].seq {
			return viol("hook-touches-only-admin-table", "%s changed channel state of %s", label, ch)
		}
	}
	if !ok && len(changed) > 0 {
		return tagged(viol("failed-operation-leaves-admin-table-unchanged", "%s failed but the admin of %v changed", label, changed), "class", class)
	}
	if class == "N" && len(changed) > 0 {
		return tagged(viol("unparsable-metadata-never-touches-permissions", "%s: metadata is not the documented structure but the admin of %v changed", label, changed), "class", class)
	}
	inList := func(ch string) bool {
		for _, l := range listed {
			if l == ch {
				return true
			}
		}
		return false
	}
	for _, ch := range changed {
		y.grants.Add(1)
		if after[ch].admin != challenger {
			return tagged(viol("admin-is-the-bridge-challenger", "%s: %s is now administered by %q, the bridge's challenger is %s", label, ch, after[ch].admin, challenger), "class", class)
		}
		if class == "P" && !inList(ch) {
			return viol("only-listed-channels-are-touched", "%s: %s is not listed but its admin changed", label, ch)
		}
		if op != "chal" {
			b := before[ch]
			if !(b.exists && b.seq == 1 && b.admin == "") {
				return tagged(viol("grant-only-on-fresh-unowned-channel", "%s: %s was granted to %s although before: exists=%v nextSeqSend=%d admin=%q", label, ch, challenger, b.exists, b.seq, b.admin), "class", class)
			}
		}
	}
	// the parenthesis of the property ("or is already administered by that same challenger") exists so
	// that a bridge can keep listing its own channels once they are in use: a metadata update whose
	// listed channels are all administered by the bridge's challenger already has nothing to refuse
	if op == "meta" && !ok && class == "P" && len(listed) > 0 {
		allOwn := true
		for _, ch := range listed {
			if before[ch].admin != challenger {
				allOwn = false
			}
		}
		if allOwn {
			return tagged(viol("own-channels-can-be-relisted", "%s failed although every listed channel %v is administered by the bridge's challenger %s already", label, listed, challenger), "class", class)
		}
	}
	if ok && class == "P" {
		for _, ch := range listed {
			if after[ch].admin != challenger {
				return viol("listed-channels-are-administered-by-challenger", "%s succeeded but listed %s has admin %q (challenger %s)", label, ch, after[ch].admin, challenger)
			}
			if op != "chal" {
				b := before[ch]
				if !((b.exists && b.seq == 1 && b.admin == "") || b.admin == challenger) {
					return viol("otherwise-the-whole-operation-fails", "%s succeeded although listed %s was: exists=%v nextSeqSend=%d admin=%q", label, ch, b.exists, b.seq, b.admin)
				}
			}
		}
	}
	return nil
}

func (y *c19Sys) doCreate(s *c19State, ctx sdk.Context, md []byte, chal string) world.DeliverResult {
	cfg := world.BridgeConfig("proposer", chal, 10*time.Second)
	cfg.Metadata = md
	return s.w.Deliver(ctx, ophosttypes.NewMsgCreateBridge(world.Addr("creator").String(), cfg))
}

func (y *c19Sys) Step(s *c19State, l engine.Letter) (*c19State, string, *engine.Violation) {
	ctx, _ := s.ctx.CacheContext()
	c := &c19State{ctx: ctx, w: s.w, br: s.br}
	before := s.channels(s.ctx)
	d0 := s.w.Digest(s.ctx)
	switch d := l.Data.(type) {
	case c19Send:
		seq, ok := s.w.Perm.GetNextSequenceSend(ctx, c19Port, d.ch)
		if ok && seq < 2 {
			s.w.Perm.SetChannelSeq(ctx, c19Port, d.ch, seq+1)
			return c, "ok", nil
		}
		return c, "noop", nil
	case c19Create:
		m := c19MetaByName(d.meta)
		res := y.doCreate(s, ctx, m.raw, d.chal)
		if !res.OK() && s.w.Digest(ctx) != d0 {
			return c, "rejected", viol("failed-operation-leaves-admin-table-unchanged", "rejected CreateBridge changed state")
		}
		if v := y.judge("create", m.raw, d.chal, before, s.channels(ctx), res.OK(), l.Name); v != nil {
			return c, "x", v
		}
		if res.OK() {
			c.br = append(append([]c19Bridge{}, s.br...), c19Bridge{d.chal, d.meta})
			return c, "accepted", nil
		}
		return c, "rejected", nil
	case c19UpdMeta:
		m := c19MetaByName(d.meta)
		res := s.w.Deliver(ctx, ophosttypes.NewMsgUpdateMetadata(world.Addr("proposer").String(), uint64(d.b+1), m.raw))
		if !res.OK() && s.w.Digest(ctx) != d0 {
			return c, "rejected", viol("failed-operation-leaves-admin-table-unchanged", "rejected UpdateMetadata changed state")
		}
		if v := y.judge("meta", m.raw, s.br[d.b].Challenger, before, s.channels(ctx), res.OK(), l.Name); v != nil {
			return c, "x", v
		}
		if res.OK() {
			nb := append([]c19Bridge{}, s.br...)
			nb[d.b].Meta = d.meta
			c.br = nb
			return c, "accepted", nil
		}
		return c, "rejected", nil
	case c19UpdChal:
		res := s.w.Deliver(ctx, ophosttypes.NewMsgUpdateChallenger(s.w.Authority, uint64(d.b+1), world.Addr(d.chal).String()))
		if !res.OK() && s.w.Digest(ctx) != d0 {
			return c, "rejected", viol("failed-operation-leaves-admin-table-unchanged", "rejected UpdateChallenger changed state")
		}
		if v := y.judge("chal", c19MetaByName(s.br[d.b].Meta).raw, d.chal, before, s.channels(ctx), res.OK(), l.Name); v != nil {
			return c, "x", v
		}
		if res.OK() {
			nb := append([]c19Bridge{}, s.br...)
			nb[d.b].Challenger = d.chal
			c.br = nb
			return c, "accepted", nil
		}
		return c, "rejected", tagged(viol("challenger-update-hands-over-admin", "UpdateChallenger by governance failed: %v", res.Err), "op", "chal")
	}
	panic("unknown letter")
}

// Check: Mode P — the whole metadata menu through CreateBridge and UpdateMetadata in this state.
func (y *c19Sys) Check(s *c19State) *engine.Violation {
	before := s.channels(s.ctx)
	for _, m := range c19Menu {
		for _, chal := range []string{"chX", "chY"} {
			y.probes.Add(1)
			ctx, _ := s.ctx.CacheContext()
			res := y.doCreate(s, ctx, m.raw, chal)
			if v := y.judge("create", m.raw, chal, before, s.channels(ctx), res.OK(), fmt.Sprintf("probe CreateBridge(meta=%s,challenger=%s)", m.name, chal)); v != nil {
				return tagged(v, "probe", "create:"+m.name)
			}
			if m.name == "too-long" && res.OK() {
				return viol("oversized-metadata-is-refused", "metadata of %d bytes accepted", len(m.raw))
			}
		}
		for b := range s.br {
			y.probes.Add(1)
			ctx, _ := s.ctx.CacheContext()
			res := s.w.Deliver(ctx, ophosttypes.NewMsgUpdateMetadata(world.Addr("proposer").String(), uint64(b+1), m.raw))
			if v := y.judge("meta", m.raw, s.br[b].Challenger, before, s.channels(ctx), res.OK(), fmt.Sprintf("probe UpdateMetadata(b%d,%s)", b+1, m.name)); v != nil {
				return tagged(v, "probe", "meta:"+m.name)
			}
			if !res.OK() {
				continue
			}
			// two-step probe: with this metadata stored, hand the bridge to the other challenger
			mid := s.channels(ctx)
			other := "chX"
			if s.br[b].Challenger == "chX" {
				other = "chY"
			}
			y.probes.Add(1)
			res2 := s.w.Deliver(ctx, ophosttypes.NewMsgUpdateChallenger(s.w.Authority, uint64(b+1), world.Addr(other).String()))
			if v := y.judge("chal", m.raw, other, mid, s.channels(ctx), res2.OK(), fmt.Sprintf("probe UpdateMetadata(b%d,%s) then UpdateChallenger(b%d,%s)", b+1, m.name, b+1, other)); v != nil {
				return tagged(v, "probe", "meta+chal:"+m.name)
			}
		}
	}
	return nil
}

func init() {
	register(&Check{ID: "C19", Level: "model_checking",
		Run: func(rc *engine.RunCtx) *engine.Result {
			res := engine.NewResult()
			y := &c19Sys{}
			rep, err := engine.Explore[*c19State](y, opts(rc, pick(rc, 5, 6)))
			if err != nil {
				res.HarnessErr = err
				return res
			}
			res.Absorb("c19", rep)
			res.Coverage["probes"] = y.probes.Load()
			res.Coverage["admin_changes_judged"] = y.grants.Load()
			var names []string
			for _, m := range c19Menu {
				cl, _ := c19Classify(m.raw)
				names = append(names, m.name+"→"+cl)
			}
			res.Coverage["metadata_menu"] = names
			res.Coverage["alphabet"] = "CreateBridge(meta∈6 representatives, challenger∈{chX,chY}) (≤2 bridges); UpdateMetadata(b, meta); UpdateChallenger(b, chX|chY); ChannelSend(channel-1|channel-2) (channel-3 never exists); in every state the full 18-entry metadata menu is probed through CreateBridge (both challengers) and UpdateMetadata (every bridge)"
			res.Coverage["oracle"] = "real hook.BridgeHook over store-backed channel/perm keepers; independent metadata reader classifies P/N/A; any admin change must be to the bridge's challenger, on a listed channel, and (create/update-metadata) on a channel that existed with next-send-sequence 1 and no admin; P and success ⇒ all listed channels administered by the challenger and each was fresh or already his; failure ⇒ admin table unchanged (also for channels listed before the offending one); N ⇒ table never touched"
			res.Assumptions = []string{"the channel and ibc-perm keepers are modelled by a KV store in the same multistore (IsTaken = an admin is set)"}
			for _, k := range []string{"CreateBridge/accepted", "CreateBridge/rejected", "UpdateMetadata/accepted", "UpdateMetadata/rejected", "UpdateChallenger/accepted"} {
				res.Require(res.OutcomeCount("c19", k) > 0, "outcome %s never occurred", k)
			}
			res.Require(y.grants.Load() > 0, "no admin change was ever observed")
			return res
		},
		Replay: func(kind string, path []string) ([]string, *engine.Violation, error) {
			return engine.Replay[*c19State](&c19Sys{}, path)
		},
	})
}
