// mc — model-checking harness for the OPinit properties. Usage:
//
//	mc <Cxx> [quick|thorough]          run the check, write evidence, exit 0/1/2
//	mc <Cxx> --replay <file>           re-execute a recorded violation without the explorer
//	mc selftest                        explorer self-checks on toy systems
package main

import (
	"encoding/json"
	"fmt"
	"os"
	"os/exec"
	"runtime"
	"strconv"
	"strings"
	"time"

	"verifmc/engine"
	"verifmc/props"
)

func verifDir() string {
	if d := os.Getenv("VERIF_DIR"); d != "" {
		return d
	}
	return "/verif"
}

func main() {
	if len(os.Args) < 2 {
		fmt.Println("usage: mc <property|selftest|list> [quick|thorough|--replay file]")
		os.Exit(2)
	}
	switch os.Args[1] {
	case "list":
		for _, id := range props.IDs() {
			fmt.Println(id)
		}
		return
	case "selftest":
		if err := engine.SelfTest(); err != nil {
			fmt.Println("SELFTEST FAILED:", err)
			os.Exit(2)
		}
		fmt.Println("selftest ok")
		return
	}
	id := os.Args[1]
	chk, err := props.Get(id)
	if err != nil {
		fmt.Println(err)
		os.Exit(2)
	}
	if len(os.Args) >= 4 && os.Args[2] == "--replay" {
		os.Exit(replay(chk, os.Args[3]))
	}
	tier := "quick"
	if len(os.Args) >= 3 {
		tier = os.Args[2]
	}
	if t := os.Getenv("VERIF_TIER"); t == "quick" || t == "thorough" {
		tier = t
	}
	if tier != "quick" && tier != "thorough" {
		fmt.Println("tier must be quick or thorough")
		os.Exit(2)
	}
	seed := int64(0)
	if s := os.Getenv("VERIF_SEED"); s != "" {
		if v, err := strconv.ParseInt(s, 10, 64); err == nil {
			seed = v
		}
	}
	workers := runtime.NumCPU()
	if s := os.Getenv("VERIF_WORKERS"); s != "" {
		if v, err := strconv.Atoi(s); err == nil && v > 0 {
			workers = v
		}
	}
	budget := 100 * time.Second
	if tier == "thorough" {
		budget = 25 * time.Minute
	}
	if s := os.Getenv("VERIF_BUDGET_S"); s != "" {
		if v, err := strconv.Atoi(s); err == nil && v > 0 {
			budget = time.Duration(v) * time.Second
		}
	}
	known, err := engine.LoadKnown(verifDir() + "/known_findings.json")
	if err != nil {
		fmt.Println("HARNESS-ERROR cannot read known_findings.json:", err)
		os.Exit(2)
	}
	if err := engine.SelfTest(); err != nil {
		fmt.Println("HARNESS-ERROR explorer self-test failed:", err)
		os.Exit(2)
	}
	rc := &engine.RunCtx{Property: id, Tier: tier, Seed: seed, Workers: workers, Budget: budget, Known: known, Start: time.Now()}
	defer func() {
		if r := recover(); r != nil { // a harness panic is never a verdict
			fmt.Printf("HARNESS-ERROR property=%s panic: %v\n", id, r)
			os.Exit(2)
		}
	}()
	res := chk.Run(rc)
	// Replay-twice rule: a violation is only reported if its replay file reproduces it.
	if len(res.Violations) > 0 && chk.Replay != nil {
		v := res.Violations[0]
		kind := res.ReplayKind
		if s, ok := v.Tags["search"]; ok {
			kind = s
		}
		fresh := func(path []string) (bool, string) {
			tmp, err := os.CreateTemp("", "verif-replay-*.json")
			if err != nil {
				fmt.Printf("HARNESS-ERROR property=%s %v\n", id, err)
				os.Exit(2)
			}
			tmp.Close()
			defer os.Remove(tmp.Name())
			rf := engine.ReplayFile{Property: id, Kind: kind, Clause: v.Clause, Msg: v.Msg, Path: path, Tags: v.Tags}
			if err := engine.WriteJSON(tmp.Name(), rf); err != nil {
				fmt.Printf("HARNESS-ERROR property=%s %v\n", id, err)
				os.Exit(2)
			}
			out, err := exec.Command(os.Args[0], id, "--replay", tmp.Name()).CombinedOutput()
			ee, isExit := err.(*exec.ExitError)
			if isExit && ee.ExitCode() == 1 {
				if strings.Contains(string(out), "replay: ["+v.Clause+"]") {
					return true, ""
				}
				if chk.SameFinding != nil {
					if i := strings.Index(string(out), "replay: ["); i >= 0 {
						rest := string(out)[i+len("replay: ["):]
						if j := strings.Index(rest, "]"); j >= 0 && chk.SameFinding(v.Clause, rest[:j]) {
							return true, ""
						}
					}
				}
			}
			return false, fmt.Sprintf("err=%v\n%s", err, out)
		}
		same := func(path []string) (bool, string) {
			if chk.FreshProcessReplay {
				return fresh(path)
			}
			_, rv, err := chk.Replay(kind, path)
			if err == nil && rv != nil && (rv.Clause == v.Clause || (chk.SameFinding != nil && chk.SameFinding(v.Clause, rv.Clause))) {
				return true, ""
			}
			return false, fmt.Sprintf("err=%v got=%v", err, rv)
		}
		for i := 0; i < 2; i++ {
			ok, why := same(v.Path)
			if ok {
				continue
			}
			// The path alone does not show it on a fresh world. If the world that found it can be
			// re-run call for call (engine/history.go) and that shows it, twice, the violation is
			// real and depends on state the code under test keeps in process memory.
			if i == 0 && len(v.History) > 0 {
				hp := append([]string{engine.HistoryMarker}, v.History...)
				ok1, why1 := same(hp)
				ok2, _ := same(hp)
				if ok1 && ok2 {
					fmt.Printf("NOTE property=%s the violation does not reproduce from its path on fresh keepers (%s); it reproduces from the complete history of the exploring world (%d engine calls), which the replay file holds: the code under test carries state in process memory\n", id, strings.SplitN(why, "\n", 2)[0], len(v.History))
					if v.Tags == nil {
						v.Tags = map[string]string{}
					}
					v.Tags["witness"] = "process-history"
					v.Tags["path-inside-history"] = strings.Join(v.Path, " ; ")
					v.Path = hp
					break
				}
				why += " | history replay: " + why1
			}
			fmt.Printf("HARNESS-ERROR property=%s violation %q did not reproduce on replay #%d (%s)\n", id, v.Clause, i+1, why)
			os.Exit(2)
		}
	}
	os.Exit(engine.Finish(rc, res, chk.Level, verifDir()))
}

func replay(chk *props.Check, file string) int {
	bz, err := os.ReadFile(file)
	if err != nil {
		fmt.Println(err)
		return 2
	}
	var rf engine.ReplayFile
	if err := json.Unmarshal(bz, &rf); err != nil {
		fmt.Println(err)
		return 2
	}
	if chk.Replay == nil {
		fmt.Println("no replayer for", chk.ID)
		return 2
	}
	var first *engine.Violation
	runs := 2
	if chk.FreshProcessReplay {
		runs = 1 // determinism is demanded across processes (run the command twice), not inside one
	}
	for i := 0; i < runs; i++ {
		outcomes, v, err := chk.Replay(rf.Kind, rf.Path)
		if err != nil {
			fmt.Println("replay error:", err)
			return 2
		}
		if i == 0 {
			for j, o := range outcomes {
				fmt.Printf("  %2d. %-60s => %s\n", j+1, rf.Path[j], o)
			}
			first = v
		} else if (v == nil) != (first == nil) || (v != nil && v.Clause != first.Clause) {
			fmt.Println("replay is not deterministic")
			return 2
		}
	}
	if first == nil {
		fmt.Println("replay: no violation on this tree")
		return 0
	}
	fmt.Printf("replay: %s\n", first.String())
	fmt.Printf("VIOLATION property=%s replay=%s\n", chk.ID, file)
	return 1
}
