package engine

import (
	"encoding/json"
	"fmt"
	"os"
	"path/filepath"
	"sort"
	"strings"
	"time"
)

// KnownFinding is one entry of /verif/known_findings.json ("findings" list).
type KnownFinding struct {
	ID       string            `json:"id"`
	Property string            `json:"property"`
	Clause   string            `json:"clause"`
	Tags     map[string]string `json:"tags"`
	What     string            `json:"what"`
}

type KnownFile struct {
	Findings []KnownFinding `json:"findings"`
	Fixed    []struct {
		Property string `json:"property"`
		Commit   string `json:"commit"`
		What     string `json:"what"`
	} `json:"fixed"`
}

func LoadKnown(path string) (*KnownFile, error) {
	var kf KnownFile
	bz, err := os.ReadFile(path)
	if err != nil {
		if os.IsNotExist(err) {
			return &kf, nil
		}
		return nil, err
	}
	if err := json.Unmarshal(bz, &kf); err != nil {
		return nil, err
	}
	return &kf, nil
}

// Matcher returns a classifier for one property.
func (kf *KnownFile) Matcher(property string) func(v *Violation) (string, bool) {
	return func(v *Violation) (string, bool) {
		for _, f := range kf.Findings {
			if f.Property != property || f.Clause != v.Clause {
				continue
			}
			ok := true
			for k, want := range f.Tags {
				if v.Tags[k] != want {
					ok = false
					break
				}
			}
			if ok {
				return f.ID, true
			}
		}
		return "", false
	}
}

func (kf *KnownFile) What(id string) string {
	for _, f := range kf.Findings {
		if f.ID == id {
			return f.What
		}
	}
	return ""
}

// RunCtx is what a check receives.
type RunCtx struct {
	Property string
	Tier     string // quick | thorough
	Seed     int64
	Workers  int
	Budget   time.Duration // soft wall-clock budget for exploration (internal deadline exits 0)
	Known    *KnownFile
	Start    time.Time
}

func (rc *RunCtx) Thorough() bool { return rc.Tier == "thorough" }
func (rc *RunCtx) Deadline() time.Time {
	return rc.Start.Add(rc.Budget)
}

// Result is what a check returns; main turns it into the evidence file and the exit code.
type Result struct {
	Coverage    map[string]any
	Assumptions []string
	Violations  []*Violation          // unknown violations; [0] is reported
	KnownHits   map[string]int        // known-finding id -> count
	KnownWit    map[string]*Violation // witnesses
	HarnessErr  error
	// DeadlineCut is set when an internal deadline stopped a search before its depth bound: the run
	// is then reported with exhaustive:false and non-vacuity requirements are not enforced (an
	// internal deadline is never a failure).
	DeadlineCut bool
	requireMsgs []string
	// ReplayKind tells the replayer which sub-system a violation path belongs to.
	ReplayKind string
}

func NewResult() *Result {
	return &Result{Coverage: map[string]any{}, KnownHits: map[string]int{}, KnownWit: map[string]*Violation{}}
}

// Absorb merges an exploration report into the result under a sub-key prefix.
func (r *Result) Absorb(name string, rep *Report) {
	cov := r.Coverage
	addInt := func(k string, v int64) {
		switch old := cov[k].(type) {
		case int64:
			cov[k] = old + v
		default:
			cov[k] = v
		}
	}
	addInt("states", int64(rep.States))
	addInt("transitions", rep.Transitions)
	addInt("traces_validated_against_impl", rep.Transitions)
	sub := map[string]any{
		"states": rep.States, "transitions": rep.Transitions, "completed_depth": rep.CompletedDepth,
		"exhaustive_to_completed_depth": true, "deadline_cut_deeper_level": !rep.Exhaustive,
		"outcomes": rep.Outcomes, "per_depth": rep.PerDepth, "wall_s": rep.Wall.Seconds(),
	}
	cov["search/"+name] = sub
	if ex, ok := cov["exhaustive"].(bool); !ok || ex {
		cov["exhaustive"] = rep.Exhaustive
	}
	if !rep.Exhaustive {
		r.DeadlineCut = true
	}
	smp, _ := cov["samples"].([]any)
	for _, s := range rep.Samples {
		if len(smp) < 12 {
			smp = append(smp, map[string]any{"search": name, "history": s})
		}
	}
	cov["samples"] = smp
	for _, v := range rep.Violations {
		if v.Tags == nil {
			v.Tags = map[string]string{}
		}
		v.Tags["search"] = name
		r.Violations = append(r.Violations, v)
	}
	for id, n := range rep.KnownHits {
		r.KnownHits[id] += n
		if w, ok := r.KnownWit[id]; !ok || lessPath(rep.KnownWitness[id].Path, w.Path) {
			r.KnownWit[id] = rep.KnownWitness[id]
		}
	}
}

// AddSample appends a sample case.
func (r *Result) AddSample(s any) {
	smp, _ := r.Coverage["samples"].([]any)
	if len(smp) < 24 {
		r.Coverage["samples"] = append(smp, s)
	}
}

// Require asserts a non-vacuity condition; failing it is a harness error, never a violation.
func (r *Result) Require(cond bool, format string, args ...any) {
	if cond {
		return
	}
	r.requireMsgs = append(r.requireMsgs, fmt.Sprintf(format, args...))
}

// OutcomeCount sums histogram entries of search `name` whose key has the given prefix.
func (r *Result) OutcomeCount(name, key string) int {
	sub, ok := r.Coverage["search/"+name].(map[string]any)
	if !ok {
		return 0
	}
	oc, _ := sub["outcomes"].(map[string]int)
	return oc[key]
}

type Evidence struct {
	PropertyID  string         `json:"property_id"`
	Tier        string         `json:"tier"`
	Seed        int64          `json:"seed"`
	Level       string         `json:"level"`
	Coverage    map[string]any `json:"coverage"`
	Assumptions []string       `json:"assumptions"`
	WallS       float64        `json:"wall_s"`
	Violations  int            `json:"violations"`
	Known       []string       `json:"known_findings_hit,omitempty"`
}

// ReplayFile is the artefact written for every reported violation.
type ReplayFile struct {
	Property string            `json:"property"`
	Kind     string            `json:"kind"`
	Clause   string            `json:"clause"`
	Msg      string            `json:"msg"`
	Path     []string          `json:"path"`
	Tags     map[string]string `json:"tags,omitempty"`
}

func WriteJSON(path string, v any) error {
	bz, err := json.MarshalIndent(v, "", " ")
	if err != nil {
		return err
	}
	if err := os.MkdirAll(filepath.Dir(path), 0o755); err != nil {
		return err
	}
	tmp := path + ".tmp"
	if err := os.WriteFile(tmp, append(bz, '\n'), 0o644); err != nil {
		return err
	}
	return os.Rename(tmp, path)
}

// Finish writes evidence + replay, prints the interface lines and returns the exit code.
func Finish(rc *RunCtx, res *Result, level string, verifDir string) int {
	wall := time.Since(rc.Start).Seconds()
	ev := Evidence{PropertyID: rc.Property, Tier: rc.Tier, Seed: rc.Seed, Level: level, Coverage: res.Coverage,
		Assumptions: res.Assumptions, WallS: wall, Violations: len(res.Violations)}
	if _, ok := ev.Coverage["samples"]; !ok {
		ev.Coverage["samples"] = []any{}
	}
	ids := make([]string, 0, len(res.KnownHits))
	for id := range res.KnownHits {
		ids = append(ids, id)
	}
	sort.Strings(ids)
	ev.Known = ids
	kc := map[string]any{}
	for _, id := range ids {
		kc[id] = map[string]any{"paths_cut": res.KnownHits[id], "witness": res.KnownWit[id]}
	}
	if len(kc) > 0 {
		ev.Coverage["paths_cut_by_known_findings"] = kc
	}
	code := 0
	if ex, ok := ev.Coverage["exhaustive"].(bool); ok && !ex {
		res.DeadlineCut = true
	}
	if len(res.requireMsgs) > 0 {
		if res.DeadlineCut {
			ev.Coverage["non_vacuity_not_enforced_after_deadline"] = res.requireMsgs
			fmt.Printf("NOTE property=%s internal deadline reached before the depth bound; evidence says exhaustive=false\n", rc.Property)
		} else if res.HarnessErr == nil {
			res.HarnessErr = fmt.Errorf("non-vacuity requirement failed: %s", res.requireMsgs[0])
		}
	}
	if res.HarnessErr != nil && len(res.Violations) == 0 {
		// a non-vacuity failure next to a violation is a consequence of the cut paths: the violation wins
		ev.Coverage["harness_error"] = res.HarnessErr.Error()
		fmt.Printf("HARNESS-ERROR property=%s %v\n", rc.Property, res.HarnessErr)
		code = 2
	}
	for _, id := range ids {
		fmt.Printf("KNOWN-FINDING: property=%s %s: %s (paths cut: %d)\n", rc.Property, id, rc.Known.What(id), res.KnownHits[id])
	}
	if len(res.Violations) > 0 {
		v := res.Violations[0]
		kind := res.ReplayKind
		if s, ok := v.Tags["search"]; ok && s != "" {
			kind = s
		}
		rf := ReplayFile{Property: rc.Property, Kind: kind, Clause: v.Clause, Msg: v.Msg, Path: v.Path, Tags: v.Tags}
		p := filepath.Join(verifDir, "replays", fmt.Sprintf("%s-%s.json", rc.Property, strings.ReplaceAll(v.Clause, "/", "_")))
		if err := WriteJSON(p, rf); err != nil {
			fmt.Printf("HARNESS-ERROR cannot write replay: %v\n", err)
			return 2
		}
		ev.Coverage["first_violation"] = v
		fmt.Printf("violation detail: %s\n", v.String())
		fmt.Printf("VIOLATION property=%s replay=%s\n", rc.Property, p)
		if code == 0 {
			code = 1
		}
	}
	if err := WriteJSON(filepath.Join(verifDir, "evidence", rc.Property+".json"), ev); err != nil {
		fmt.Printf("HARNESS-ERROR cannot write evidence: %v\n", err)
		return 2
	}
	if code == 0 {
		fmt.Printf("OK property=%s tier=%s states=%v transitions=%v wall=%.1fs\n", rc.Property, rc.Tier, ev.Coverage["states"], ev.Coverage["transitions"], wall)
	}
	return code
}
