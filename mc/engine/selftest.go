package engine

import (
	"crypto/sha256"
	"fmt"
)

// Toy system 1: k independent mod-n counters, letter i increments counter i.
// Reachable states within depth D: all vectors with sum of "increments" <= D modulo wrap; with
// D < n: number of vectors with non-negative entries summing to <= D = C(D+k, k).
type toyCounters struct{ k, n int }
type toyVec []int

func (t toyCounters) Root() toyVec { return make(toyVec, t.k) }
func (t toyCounters) Digest(s toyVec) [32]byte {
	b := make([]byte, len(s))
	for i, v := range s {
		b[i] = byte(v)
	}
	return sha256.Sum256(b)
}
func (t toyCounters) Letters(s toyVec) []Letter {
	ls := make([]Letter, t.k)
	for i := range ls {
		ls[i] = Letter{Name: fmt.Sprintf("inc(%d)", i), Data: i}
	}
	return ls
}
func (t toyCounters) Step(s toyVec, l Letter) (toyVec, string, *Violation) {
	c := append(toyVec{}, s...)
	i := l.Data.(int)
	c[i] = (c[i] + 1) % t.n
	if t.n == 99 && c[0] == 2 && c[1] == 1 { // planted violation for the detection self-test
		return c, "bad", &Violation{Clause: "planted", Msg: "planted"}
	}
	return c, "ok", nil
}
func (t toyCounters) Check(s toyVec) *Violation { return nil }

func binom(n, k int) int {
	r := 1
	for i := 1; i <= k; i++ {
		r = r * (n - k + i) / i
	}
	return r
}

// SelfTest checks the explorer against closed-form state/transition counts, with 1 and many
// workers, with and without the table, and checks that a planted violation is found with a
// shortest path.
func SelfTest() error {
	for _, workers := range []int{1, 7} {
		for _, cfg := range []struct{ k, d int }{{2, 4}, {3, 5}} {
			sys := toyCounters{k: cfg.k, n: 50}
			rep, err := Explore[toyVec](sys, Options{MaxDepth: cfg.d, Workers: workers})
			if err != nil {
				return err
			}
			want := binom(cfg.d+cfg.k, cfg.k)
			if rep.States != want || rep.CompletedDepth != cfg.d || !rep.Exhaustive {
				return fmt.Errorf("counters k=%d d=%d workers=%d: states=%d want %d (completed %d)", cfg.k, cfg.d, workers, rep.States, want, rep.CompletedDepth)
			}
			// without the table the last level alone executes k + k^2 + ... + k^d transitions
			repN, err := Explore[toyVec](sys, Options{MaxDepth: cfg.d, Workers: workers, NoTable: true})
			if err != nil {
				return err
			}
			wantT := int64(0)
			p := 1
			for i := 1; i <= cfg.d; i++ {
				p *= cfg.k
				wantT += int64(p)
			}
			if repN.LastLevelTrans != wantT {
				return fmt.Errorf("counters k=%d d=%d workers=%d no-table: last level transitions=%d want %d", cfg.k, cfg.d, workers, repN.LastLevelTrans, wantT)
			}
			// with the table every distinct non-frontier state is expanded at least once at the last level
			inner := binom(cfg.d-1+cfg.k, cfg.k)
			if rep.LastLevelTrans < int64(inner*cfg.k) {
				return fmt.Errorf("counters k=%d d=%d workers=%d: last level transitions=%d < %d", cfg.k, cfg.d, workers, rep.LastLevelTrans, inner*cfg.k)
			}
		}
		rep, err := Explore[toyVec](toyCounters{k: 3, n: 99}, Options{MaxDepth: 6, Workers: workers})
		if err != nil {
			return err
		}
		if len(rep.Violations) == 0 || len(rep.Violations[0].Path) != 3 {
			return fmt.Errorf("planted violation not found with a shortest path (workers=%d): %v", workers, rep.Violations)
		}
		if got := fmt.Sprint(rep.Violations[0].Path); got != "[inc(0) inc(0) inc(1)]" {
			return fmt.Errorf("planted violation: reported path %s is not the lexicographically smallest", got)
		}
	}
	return selfTestHistory()
}

// Toy system 2: a counter system whose world keeps a memo in process memory, filled the first
// time a state with c[1]==1 is checked and never invalidated. The planted violation (the memo
// disagrees with c[0]==2 in a state with c[1]==0) is not a function of the path: no path to
// such a state fills the memo. The explorer must report it with a history that reproduces it.
type toyMemoWorld struct{ memo *int }
type toyMemoState struct {
	w *toyMemoWorld
	c toyVec
}
type toyMemo struct{}

func (toyMemo) Root() toyMemoState { return toyMemoState{&toyMemoWorld{}, make(toyVec, 2)} }
func (toyMemo) Digest(s toyMemoState) [32]byte {
	return sha256.Sum256([]byte{byte(s.c[0]), byte(s.c[1])})
}
func (toyMemo) Letters(s toyMemoState) []Letter {
	return []Letter{{Name: "inc(0)", Data: 0}, {Name: "inc(1)", Data: 1}}
}
func (toyMemo) Step(s toyMemoState, l Letter) (toyMemoState, string, *Violation) {
	c := append(toyVec{}, s.c...)
	c[l.Data.(int)]++
	return toyMemoState{s.w, c}, "ok", nil
}
func (toyMemo) Check(s toyMemoState) *Violation {
	if s.c[1] == 1 && s.w.memo == nil {
		v := s.c[0]
		s.w.memo = &v
	}
	if s.c[1] == 0 && s.c[0] == 2 && s.w.memo != nil && *s.w.memo != 2 {
		return &Violation{Clause: "stale-memo", Msg: "planted"}
	}
	return nil
}

func selfTestHistory() error {
	rep, err := Explore[toyMemoState](toyMemo{}, Options{MaxDepth: 3, Workers: 1})
	if err != nil {
		return err
	}
	if len(rep.Violations) == 0 || len(rep.Violations[0].History) == 0 {
		return fmt.Errorf("process-memory violation not found or found without a history: %v", rep.Violations)
	}
	v := rep.Violations[0]
	if _, pv, _ := Replay[toyMemoState](toyMemo{}, v.Path); pv != nil {
		return fmt.Errorf("process-memory self-test is vacuous: the path alone reproduces")
	}
	for i := 0; i < 2; i++ {
		_, hv, err := Replay[toyMemoState](toyMemo{}, append([]string{HistoryMarker}, v.History...))
		if err != nil || hv == nil || hv.Clause != v.Clause {
			return fmt.Errorf("history replay #%d does not reproduce the process-memory violation (err=%v got=%v)", i+1, err, hv)
		}
	}
	// and a history that ends one call early shows nothing
	if _, hv, err := Replay[toyMemoState](toyMemo{}, append([]string{HistoryMarker}, v.History[:len(v.History)-1]...)); err != nil || hv != nil {
		return fmt.Errorf("truncated history: err=%v got=%v", err, hv)
	}
	return nil
}
