package engine

import (
	"fmt"
	"strconv"
	"strings"
)

// Process-history witnesses.
//
// The explorer reuses one world (stores AND keeper objects) per worker for the whole search, the
// way a node reuses its keepers for every transaction, simulation and query it ever serves. State
// the code under test keeps in the memory of those objects is therefore carried from one explored
// branch to the next, and a violation that depends on it is not a function of the letter path
// alone: replaying the path on a fresh world need not show it. For that case every world keeps
// the ordered log of the engine calls made on it (Digest, Check, Letters, Step, each with the
// state it was applied to), and the first violation of a report carries the log up to the call
// that raised it. Re-executing that log call for call on a fresh world is deterministic, and is
// what the replay file holds ("@process-history" as first path element) when the path alone does
// not reproduce.

// HistoryMarker as first element of a replay path: the rest is an encoded world log.
const HistoryMarker = "@process-history"

// histCap bounds a world's log; a longer search keeps exploring but offers no history witness.
const histCap = 400000

type histEntry struct {
	kind   byte  // 'D' Digest, 'C' Check, 'L' Letters, 'S' Step
	on     int32 // state the call was applied to: the log index of the Step that created it, -1 = root
	letter string
}

type worldLog struct {
	ents     []histEntry
	overflow bool
}

func (l *worldLog) add(kind byte, on int32, letter string) int32 {
	if l.overflow || len(l.ents) >= histCap {
		l.overflow = true
		return -1
	}
	l.ents = append(l.ents, histEntry{kind, on, letter})
	return int32(len(l.ents) - 1)
}

func (l *worldLog) mark() int {
	if l.overflow {
		return -1
	}
	return len(l.ents)
}

func (l *worldLog) encode(n int) []string {
	if n <= 0 || n > len(l.ents) {
		return nil
	}
	out := make([]string, n)
	for i, e := range l.ents[:n] {
		out[i] = string(e.kind) + "|" + strconv.Itoa(int(e.on)) + "|" + e.letter
	}
	return out
}

// replayHistory re-executes an encoded world log on a fresh world; the verdict is that of its
// last call (every earlier call returned no violation when it was recorded, or one that was cut).
func replayHistory[S any](sys Sys[S], enc []string) (outcomes []string, v *Violation, err error) {
	ents := make([]histEntry, len(enc))
	lastUse := map[int32]int{}
	for i, s := range enc {
		p := strings.SplitN(s, "|", 3)
		if len(p) != 3 || len(p[0]) != 1 {
			return nil, nil, fmt.Errorf("malformed history entry %d: %q", i, s)
		}
		on, err := strconv.Atoi(p[1])
		if err != nil || on < -1 || on >= i {
			return nil, nil, fmt.Errorf("malformed history entry %d: %q", i, s)
		}
		ents[i] = histEntry{p[0][0], int32(on), p[2]}
		lastUse[int32(on)] = i
	}
	type live struct {
		s       S
		letters []Letter
		path    []string
	}
	states := map[int32]*live{-1: {s: sys.Root()}}
	for i, e := range ents {
		st := states[e.on]
		if st == nil {
			return outcomes, nil, fmt.Errorf("history entry %d refers to a state that was never created or was cut", i)
		}
		last := i == len(ents)-1
		switch e.kind {
		case 'D':
			sys.Digest(st.s)
		case 'L':
			st.letters = sys.Letters(st.s)
		case 'C':
			if cv := sys.Check(st.s); cv != nil && last {
				cv.Path = append([]string{HistoryMarker, "(the path inside the history)"}, st.path...)
				return outcomes, cv, nil
			}
		case 'S':
			if st.letters == nil {
				st.letters = sys.Letters(st.s)
			}
			var found *Letter
			for j := range st.letters {
				if st.letters[j].Name == e.letter {
					found = &st.letters[j]
					break
				}
			}
			if found == nil {
				return outcomes, nil, fmt.Errorf("history divergence at entry %d: letter %q not offered", i, e.letter)
			}
			child, outcome, sv := sys.Step(st.s, *found)
			np := append(append([]string{}, st.path...), e.letter)
			if last {
				outcomes = append(outcomes, outcome)
			}
			if sv != nil && !strings.HasPrefix(sv.Clause, "cut:") {
				if last {
					sv.Path = append([]string{HistoryMarker, "(the path inside the history)"}, np...)
					return outcomes, sv, nil
				}
			} else if sv == nil && lastUse[int32(i)] > i {
				states[int32(i)] = &live{s: child, path: np}
			}
		default:
			return outcomes, nil, fmt.Errorf("malformed history entry %d", i)
		}
		if lastUse[e.on] == i && e.on != -1 {
			delete(states, e.on)
		}
	}
	return outcomes, nil, nil
}
