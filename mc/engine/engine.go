// Package engine is the explicit-state explorer shared by all checks (DESIGN.md §3.1).
//
// It explores, exhaustively up to a depth bound, every sequence of letters a property-specific
// system offers, executing the real handlers for every transition. States are never cloned: a
// successor is a cache-branch of its parent (the system's Step does the branching), so the live
// memory is one path. A transposition table keyed by the full state digest prunes re-visits.
package engine

import (
	"fmt"
	"sort"
	"strings"
	"sync"
	"sync/atomic"
	"time"
)

// Letter is one element of a (state dependent) alphabet. Name must be unique within the list a
// state offers and must be stable across worlds: replay files store names only.
type Letter struct {
	Name string
	Data any
}

// Violation of an oracle clause. Path is filled in by the engine.
type Violation struct {
	Clause string   `json:"clause"`
	Msg    string   `json:"msg"`
	Path   []string `json:"path"`
	// Tags are structural facts about the witness that known-finding predicates match on.
	Tags map[string]string `json:"tags,omitempty"`
	// History is the complete ordered record of what the world that found the violation executed
	// before it (see history.go); only the first violation of a report carries one. It is the
	// fallback witness when the path alone does not reproduce on a fresh world (state held in
	// process memory of the code under test).
	History []string `json:"-"`
	hw      int      // world (worker) that found it
	hn      int      // length of that world's log at the time
}

func (v *Violation) String() string {
	if len(v.Path) > 0 && v.Path[0] == HistoryMarker {
		return fmt.Sprintf("[%s] %s  witness=the complete history of one exploring world (%d engine calls, in the replay file); path inside it=%s", v.Clause, v.Msg, len(v.Path)-1, v.Tags["path-inside-history"])
	}
	return fmt.Sprintf("[%s] %s  path=%s", v.Clause, v.Msg, strings.Join(v.Path, " ; "))
}

// Sys is what a property supplies.
type Sys[S any] interface {
	// Root builds a fresh, independent world (own stores and keepers) and returns its initial state.
	Root() S
	// Digest must cover everything later behaviour or oracle evaluation can depend on.
	Digest(s S) [32]byte
	// Letters enabled in s (finite menu computed from public observations of s).
	Letters(s S) []Letter
	// Step executes letter l on a branch of s (s itself must stay usable) with the real handlers,
	// compares with the reference model and returns the successor. outcome is a short class label
	// ("ok", "rejected:unauthorized", ...) used for the non-vacuity histogram.
	Step(s S, l Letter) (child S, outcome string, v *Violation)
	// Check evaluates state invariants (and Mode-P probe families) in s; run once per distinct state.
	Check(s S) *Violation
}

type Options struct {
	MaxDepth   int
	Workers    int
	ShardDepth int // prefixes of this length are distributed over workers (default 2)
	Deadline   time.Time
	// Known classifies a violation as a listed known finding (returns its id) or not.
	Known func(v *Violation) (id string, ok bool)
	// MaxSamples histories kept for the evidence file.
	MaxSamples int
	// NoTable disables the transposition table (self-test only).
	NoTable bool
	// Sequential re-run for deterministic counterexample choice.
	deterministic bool
}

type Report struct {
	States         int            // distinct digests visited
	Transitions    int64          // Step executions (all iterations)
	LastLevelTrans int64          // Step executions in the last completed iteration
	CompletedDepth int            // deepest fully enumerated depth
	Exhaustive     bool           // false if the deadline cut an iteration
	Outcomes       map[string]int // "LetterClass/outcome" -> count (last completed iteration)
	Violations     []*Violation   // unknown violations (sorted; first is the one to report)
	KnownHits      map[string]int // known finding id -> paths cut
	KnownWitness   map[string]*Violation
	Samples        [][]string
	Wall           time.Duration
	PerDepth       []DepthStat
}

type DepthStat struct {
	Depth       int   `json:"depth"`
	States      int   `json:"states_total"`
	Transitions int64 `json:"transitions"`
	Complete    bool  `json:"complete"`
}

const tableShards = 256

type table struct {
	sh [tableShards]struct {
		mu sync.Mutex
		m  map[[32]byte]int8
	}
}

func newTable() *table {
	t := &table{}
	for i := range t.sh {
		t.sh[i].m = make(map[[32]byte]int8)
	}
	return t
}

// visit reports (firstVisit, shouldExpand) for digest h at remaining depth rem.
func (t *table) visit(h [32]byte, rem int) (first bool, expand bool) {
	s := &t.sh[h[0]]
	s.mu.Lock()
	defer s.mu.Unlock()
	old, ok := s.m[h]
	if ok && int(old) >= rem {
		return false, false
	}
	s.m[h] = int8(rem)
	return !ok, true
}

func (t *table) size() int {
	n := 0
	for i := range t.sh {
		t.sh[i].mu.Lock()
		n += len(t.sh[i].m)
		t.sh[i].mu.Unlock()
	}
	return n
}

type explorer[S any] struct {
	sys      Sys[S]
	opt      Options
	tab      *table
	trans    atomic.Int64
	aborted  atomic.Bool
	mu       sync.Mutex
	outcomes map[string]int
	viol     []*Violation
	known    map[string]int
	knownW   map[string]*Violation
	samples  [][]string
	tick     atomic.Int64
	logs     []*worldLog // one per world; shared by all iterations
}

func letterClass(name string) string {
	if i := strings.IndexAny(name, "(:"); i >= 0 {
		return name[:i]
	}
	return name
}

func (e *explorer[S]) record(path []string, l Letter, outcome string) {
	// called under no lock; uses local batching via mutex (cheap relative to a transition)
	key := letterClass(l.Name) + "/" + outcome
	e.mu.Lock()
	e.outcomes[key]++
	if len(e.samples) < e.opt.MaxSamples && len(path) >= 2 && e.trans.Load()%97 == 0 {
		e.samples = append(e.samples, append(append([]string{}, path...), "=> "+outcome))
	}
	e.mu.Unlock()
}

// report a violation; returns true if it is a known finding (path is cut either way).
func (e *explorer[S]) violation(v *Violation, path []string, w int) {
	v.Path = append([]string{}, path...)
	v.hw, v.hn = w, e.logs[w].mark()
	if e.opt.Known != nil {
		if id, ok := e.opt.Known(v); ok {
			e.mu.Lock()
			e.known[id]++
			if w, have := e.knownW[id]; !have || lessPath(v.Path, w.Path) {
				e.knownW[id] = v
			}
			e.mu.Unlock()
			return
		}
	}
	e.mu.Lock()
	if len(e.viol) < 10000 {
		e.viol = append(e.viol, v)
	}
	e.mu.Unlock()
}

func lessPath(a, b []string) bool {
	if len(a) != len(b) {
		return len(a) < len(b)
	}
	for i := range a {
		if a[i] != b[i] {
			return a[i] < b[i]
		}
	}
	return false
}

func (e *explorer[S]) expired() bool {
	if e.aborted.Load() {
		return true
	}
	if e.opt.Deadline.IsZero() {
		return false
	}
	if e.tick.Add(1)%64 == 0 && time.Now().After(e.opt.Deadline) {
		e.aborted.Store(true)
		return true
	}
	return false
}

// dfs explores below s. path is the letter-name path leading to s.
// w is the world the state lives in and id the log entry that created it (-1: the root).
func (e *explorer[S]) dfs(s S, rem int, path []string, w int, id int32) {
	if e.expired() {
		return
	}
	lg := e.logs[w]
	if !e.opt.NoTable {
		lg.add('D', id, "")
		h := e.sys.Digest(s)
		first, expand := e.tab.visit(h, rem)
		if first {
			lg.add('C', id, "")
			if v := e.sys.Check(s); v != nil {
				e.violation(v, path, w)
				return
			}
		}
		if !expand {
			return
		}
	} else {
		lg.add('C', id, "")
		if v := e.sys.Check(s); v != nil {
			e.violation(v, path, w)
			return
		}
	}
	if rem == 0 {
		return
	}
	lg.add('L', id, "")
	for _, l := range e.sys.Letters(s) {
		if e.aborted.Load() {
			return
		}
		cid := lg.add('S', id, l.Name)
		child, outcome, v := e.sys.Step(s, l)
		e.trans.Add(1)
		np := append(path, l.Name)
		e.record(np, l, outcome)
		if v != nil {
			if !strings.HasPrefix(v.Clause, "cut:") { // "cut:" = path deliberately stopped, not a violation
				e.violation(v, np, w)
			}
			continue
		}
		e.dfs(child, rem-1, np, w, cid)
	}
}

// replayPrefix walks names from the root of a fresh world; returns the reached state.
func replayPrefix[S any](sys Sys[S], root S, names []string, lg *worldLog) (S, int32, error) {
	s := root
	id := int32(-1)
	for i, n := range names {
		var found *Letter
		lg.add('L', id, "")
		ls := sys.Letters(s)
		for j := range ls {
			if ls[j].Name == n {
				found = &ls[j]
				break
			}
		}
		if found == nil {
			var zero S
			return zero, -1, fmt.Errorf("replay divergence at step %d: letter %q not offered", i, n)
		}
		id = lg.add('S', id, n)
		child, _, _ := sys.Step(s, *found)
		s = child
	}
	return s, id, nil
}

// Explore runs iterative deepening to opt.MaxDepth.
func Explore[S any](sys Sys[S], opt Options) (*Report, error) {
	start := time.Now()
	if opt.Workers <= 0 {
		opt.Workers = 1
	}
	if opt.ShardDepth <= 0 {
		opt.ShardDepth = 2
	}
	if opt.MaxSamples == 0 {
		opt.MaxSamples = 8
	}
	rep := &Report{Exhaustive: true}
	tab := newTable()

	// one world per worker, built once and reused across iterations (root state is immutable:
	// every Step branches).
	roots := make([]S, opt.Workers)
	var wg sync.WaitGroup
	for w := 0; w < opt.Workers; w++ {
		wg.Add(1)
		go func(w int) { defer wg.Done(); roots[w] = sys.Root() }(w)
	}
	wg.Wait()
	d0 := sys.Digest(roots[0])
	for w := 1; w < opt.Workers; w++ {
		if sys.Digest(roots[w]) != d0 {
			return nil, fmt.Errorf("harness error: worlds are not built deterministically (root digest of worker %d differs)", w)
		}
	}

	logs := make([]*worldLog, opt.Workers)
	for w := range logs {
		logs[w] = &worldLog{}
	}
	var lastOutcomes map[string]int
	for depth := 1; depth <= opt.MaxDepth; depth++ {
		e := &explorer[S]{sys: sys, opt: opt, tab: tab, outcomes: map[string]int{}, known: map[string]int{}, knownW: map[string]*Violation{}, logs: logs}
		if opt.NoTable {
			e.tab = newTable()
		}
		// generate tasks: all letter-name prefixes of length min(ShardDepth, depth)
		type task struct{ names []string }
		var tasks []task
		k := opt.ShardDepth
		if k > depth {
			k = depth
		}
		var gen func(s S, rem int, lvl int, path []string, id int32)
		gen = func(s S, rem int, lvl int, path []string, id int32) {
			if lvl == k {
				tasks = append(tasks, task{append([]string{}, path...)})
				return
			}
			lg := logs[0]
			if !opt.NoTable {
				lg.add('D', id, "")
				h := sys.Digest(s)
				first, expand := e.tab.visit(h, rem)
				if first {
					lg.add('C', id, "")
					if v := sys.Check(s); v != nil {
						e.violation(v, path, 0)
						return
					}
				}
				if !expand {
					return
				}
			} else {
				lg.add('C', id, "")
				if v := sys.Check(s); v != nil {
					e.violation(v, path, 0)
					return
				}
			}
			lg.add('L', id, "")
			for _, l := range sys.Letters(s) {
				cid := lg.add('S', id, l.Name)
				child, outcome, v := sys.Step(s, l)
				e.trans.Add(1)
				np := append(append([]string{}, path...), l.Name)
				e.record(np, l, outcome)
				if v != nil {
					if !strings.HasPrefix(v.Clause, "cut:") {
						e.violation(v, np, 0)
					}
					continue
				}
				gen(child, rem-1, lvl+1, np, cid)
			}
		}
		gen(roots[0], depth, 0, nil, -1)

		var next atomic.Int64
		var errMu sync.Mutex
		var firstErr error
		for w := 0; w < opt.Workers; w++ {
			wg.Add(1)
			go func(w int) {
				defer wg.Done()
				for {
					i := int(next.Add(1) - 1)
					if i >= len(tasks) || e.aborted.Load() {
						return
					}
					s, id, err := replayPrefix(sys, roots[w], tasks[i].names, logs[w])
					if err != nil {
						errMu.Lock()
						if firstErr == nil {
							firstErr = err
						}
						errMu.Unlock()
						e.aborted.Store(true)
						return
					}
					e.dfs(s, depth-k, append([]string{}, tasks[i].names...), w, id)
				}
			}(w)
		}
		wg.Wait()
		if firstErr != nil {
			return nil, firstErr
		}
		rep.Transitions += e.trans.Load()
		for id, n := range e.known {
			if rep.KnownHits == nil {
				rep.KnownHits = map[string]int{}
				rep.KnownWitness = map[string]*Violation{}
			}
			if n > rep.KnownHits[id] {
				rep.KnownHits[id] = n
			}
			if w, have := rep.KnownWitness[id]; !have || lessPath(e.knownW[id].Path, w.Path) {
				rep.KnownWitness[id] = e.knownW[id]
			}
		}
		complete := !e.aborted.Load()
		rep.PerDepth = append(rep.PerDepth, DepthStat{Depth: depth, States: e.tab.size(), Transitions: e.trans.Load(), Complete: complete})
		if len(e.viol) > 0 {
			sort.Slice(e.viol, func(i, j int) bool { return lessPath(e.viol[i].Path, e.viol[j].Path) })
			rep.Violations = e.viol
			e.viol[0].History = logs[e.viol[0].hw].encode(e.viol[0].hn)
			rep.States = e.tab.size()
			if complete {
				rep.CompletedDepth = depth
			}
			rep.Exhaustive = complete
			rep.Samples = append(rep.Samples, e.samples...)
			rep.Outcomes = e.outcomes
			rep.Wall = time.Since(start)
			return rep, nil
		}
		if !complete {
			rep.Exhaustive = false
			if lastOutcomes == nil {
				lastOutcomes = e.outcomes
			}
			rep.Samples = append(rep.Samples, e.samples...)
			break
		}
		rep.CompletedDepth = depth
		rep.LastLevelTrans = e.trans.Load()
		lastOutcomes = e.outcomes
		rep.Samples = e.samples
		if opt.NoTable {
			rep.States = e.tab.size()
		}
	}
	if !opt.NoTable {
		rep.States = tab.size()
	}
	rep.Outcomes = lastOutcomes
	rep.Wall = time.Since(start)
	return rep, nil
}

// Replay walks a path of letter names on a fresh world and returns the first violation on it
// (from Step or Check), with the outcome of every step. It does not use the explorer.
func Replay[S any](sys Sys[S], names []string) (outcomes []string, v *Violation, err error) {
	if len(names) > 0 && names[0] == HistoryMarker {
		return replayHistory(sys, names[1:])
	}
	s := sys.Root()
	if v := sys.Check(s); v != nil {
		v.Path = nil
		return nil, v, nil
	}
	for i, n := range names {
		var found *Letter
		ls := sys.Letters(s)
		for j := range ls {
			if ls[j].Name == n {
				found = &ls[j]
				break
			}
		}
		if found == nil {
			return outcomes, nil, fmt.Errorf("replay divergence at step %d: letter %q not offered in this state", i, n)
		}
		child, outcome, v := sys.Step(s, *found)
		outcomes = append(outcomes, outcome)
		if v != nil && strings.HasPrefix(v.Clause, "cut:") {
			return outcomes, nil, nil
		}
		if v != nil {
			v.Path = append([]string{}, names[:i+1]...)
			return outcomes, v, nil
		}
		if v := sys.Check(child); v != nil {
			v.Path = append([]string{}, names[:i+1]...)
			return outcomes, v, nil
		}
		s = child
	}
	return outcomes, nil, nil
}
