// Package ref holds independent re-implementations of the primitives the oracles need. It does not
// import x/ophost/types or golang.org/x/crypto/sha3: it is written from the format description
// and pinned by vectors generated with Python's hashlib (/verif/vectors).
package ref

import "encoding/binary"

var keccakRC = [24]uint64{
	0x0000000000000001, 0x0000000000008082, 0x800000000000808A, 0x8000000080008000,
	0x000000000000808B, 0x0000000080000001, 0x8000000080008081, 0x8000000000008009,
	0x000000000000008A, 0x0000000000000088, 0x0000000080008009, 0x000000008000000A,
	0x000000008000808B, 0x800000000000008B, 0x8000000000008089, 0x8000000000008003,
	0x8000000000008002, 0x8000000000000080, 0x000000000000800A, 0x800000008000000A,
	0x8000000080008081, 0x8000000000008080, 0x0000000080000001, 0x8000000080008008,
}

var keccakRot = [5][5]uint{
	{0, 36, 3, 41, 18},
	{1, 44, 10, 45, 2},
	{62, 6, 43, 15, 61},
	{28, 55, 25, 21, 56},
	{27, 20, 39, 8, 14},
}

func rotl(x uint64, n uint) uint64 { return x<<n | x>>(64-n) }

// keccakF1600 on a[x][y] lanes.
func keccakF1600(a *[5][5]uint64) {
	for round := 0; round < 24; round++ {
		var c, d [5]uint64
		for x := 0; x < 5; x++ {
			c[x] = a[x][0] ^ a[x][1] ^ a[x][2] ^ a[x][3] ^ a[x][4]
		}
		for x := 0; x < 5; x++ {
			d[x] = c[(x+4)%5] ^ rotl(c[(x+1)%5], 1)
		}
		for x := 0; x < 5; x++ {
			for y := 0; y < 5; y++ {
				a[x][y] ^= d[x]
			}
		}
		var b [5][5]uint64
		for x := 0; x < 5; x++ {
			for y := 0; y < 5; y++ {
				r := keccakRot[x][y]
				v := a[x][y]
				if r != 0 {
					v = rotl(v, r)
				}
				b[y][(2*x+3*y)%5] = v
			}
		}
		for x := 0; x < 5; x++ {
			for y := 0; y < 5; y++ {
				a[x][y] = b[x][y] ^ (^b[(x+1)%5][y] & b[(x+2)%5][y])
			}
		}
		a[0][0] ^= keccakRC[round]
	}
}

// Sum256 is SHA3-256 (FIPS 202): rate 136 bytes, domain suffix 0x06, pad10*1.
func Sum256(msg []byte) [32]byte {
	const rate = 136
	var a [5][5]uint64
	absorb := func(block []byte) {
		for i := 0; i < rate/8; i++ {
			a[i%5][i/5] ^= binary.LittleEndian.Uint64(block[8*i:])
		}
		keccakF1600(&a)
	}
	for len(msg) >= rate {
		absorb(msg[:rate])
		msg = msg[rate:]
	}
	last := make([]byte, rate)
	copy(last, msg)
	last[len(msg)] ^= 0x06
	last[rate-1] ^= 0x80
	absorb(last)
	var out [32]byte
	for i := 0; i < 4; i++ {
		binary.LittleEndian.PutUint64(out[8*i:], a[i%5][i/5])
	}
	return out
}
