package ref

import (
	"bytes"
	"crypto/sha256"
	"encoding/binary"
	"encoding/hex"
)

// Leaf: sha3(sha3( be64(bridge) ‖ be64(sequence) ‖ sha3(sender) ‖ sha3(receiver) ‖ sha3(denom) ‖ be64(amount) )).
func Leaf(bridgeID, sequence uint64, sender, receiver, denom string, amount uint64) [32]byte {
	buf := make([]byte, 0, 8+8+32*3+8)
	var u [8]byte
	binary.BigEndian.PutUint64(u[:], bridgeID)
	buf = append(buf, u[:]...)
	binary.BigEndian.PutUint64(u[:], sequence)
	buf = append(buf, u[:]...)
	for _, s := range []string{sender, receiver, denom} {
		d := Sum256([]byte(s))
		buf = append(buf, d[:]...)
	}
	binary.BigEndian.PutUint64(u[:], amount)
	buf = append(buf, u[:]...)
	h := Sum256(buf)
	return Sum256(h[:])
}

// Node: sha3(min(a,b) ‖ max(a,b)) under bytewise lexicographic order.
func Node(a, b []byte) [32]byte {
	buf := make([]byte, 0, len(a)+len(b))
	if bytes.Compare(a, b) < 0 {
		buf = append(append(buf, a...), b...)
	} else {
		buf = append(append(buf, b...), a...)
	}
	return Sum256(buf)
}

func RootFromProof(leaf [32]byte, proof [][]byte) [32]byte {
	cur := leaf
	for _, p := range proof {
		cur = Node(cur[:], p)
	}
	return cur
}

// OutputRoot: sha3(version ‖ storageRoot[32] ‖ lastBlockHash[32]).
func OutputRoot(version byte, storageRoot, lastBlockHash []byte) [32]byte {
	buf := make([]byte, 0, 65)
	buf = append(buf, version)
	buf = append(buf, storageRoot[:32]...)
	buf = append(buf, lastBlockHash[:32]...)
	return Sum256(buf)
}

// L2Denom: "l2/" ‖ hex(sha3(be64(bridge) ‖ l1denom)).
func L2Denom(bridgeID uint64, l1Denom string) string {
	var u [8]byte
	binary.BigEndian.PutUint64(u[:], bridgeID)
	h := Sum256(append(u[:], l1Denom...))
	return "l2/" + hex.EncodeToString(h[:])
}

// BridgeAddress: ADR-028 module-derived address: sha256(sha256("module") ‖ "ophost" ‖ 0x00 ‖ be64(bridge)).
func BridgeAddress(bridgeID uint64) []byte {
	typ := sha256.Sum256([]byte("module"))
	var u [8]byte
	binary.BigEndian.PutUint64(u[:], bridgeID)
	buf := append([]byte{}, typ[:]...)
	buf = append(buf, "ophost"...)
	buf = append(buf, 0)
	buf = append(buf, u[:]...)
	h := sha256.Sum256(buf)
	return h[:]
}

// Tree is a sorted-pair Merkle tree: leaves in the given (L2 sequence) order, adjacent nodes
// paired, an odd last node paired with itself.
type Tree struct{ Levels [][][32]byte }

func BuildTree(leaves [][32]byte) *Tree { return BuildTreeWith(leaves, Node) }

// BuildTreeWith builds the same tree shape with a caller-supplied node function (used to build the
// tree a prover running the repository's own helpers would build).
func BuildTreeWith(leaves [][32]byte, node func(a, b []byte) [32]byte) *Tree {
	t := &Tree{}
	cur := append([][32]byte{}, leaves...)
	t.Levels = append(t.Levels, cur)
	for len(cur) > 1 {
		var next [][32]byte
		for i := 0; i < len(cur); i += 2 {
			j := i + 1
			if j >= len(cur) {
				j = i
			}
			next = append(next, node(cur[i][:], cur[j][:]))
		}
		t.Levels = append(t.Levels, next)
		cur = next
	}
	return t
}

func (t *Tree) Root() [32]byte {
	top := t.Levels[len(t.Levels)-1]
	return top[0]
}

// Proof returns the sibling path of leaf i (fresh, separately allocated 32-byte slices).
func (t *Tree) Proof(i int) [][]byte {
	var out [][]byte
	for lvl := 0; lvl < len(t.Levels)-1; lvl++ {
		nodes := t.Levels[lvl]
		sib := i ^ 1
		if sib >= len(nodes) {
			sib = i
		}
		out = append(out, append([]byte{}, nodes[sib][:]...))
		i /= 2
	}
	return out
}
