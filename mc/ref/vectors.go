package ref

import (
	"encoding/hex"
	"encoding/json"
	"fmt"
	"os"
	"strconv"
)

type vecFile struct {
	Sha3 []struct{ Msg, Hash string } `json:"sha3"`
	Leaf []struct {
		Bridge, Seq, Sender, Receiver, Denom, Amount, Hash string
	} `json:"leaf"`
	Node       []struct{ A, B, Hash string } `json:"node"`
	OutputRoot []struct {
		Version     int
		StorageRoot string `json:"storage_root"`
		BlockHash   string `json:"block_hash"`
		Hash        string
	} `json:"output_root"`
	L2Denom    []struct{ Bridge, Denom, L2denom string } `json:"l2denom"`
	BridgeAddr []struct{ Bridge, Addr string }           `json:"bridge_addr"`
	TreeRoot   []struct {
		N    int
		Root string
	} `json:"tree_root"`
}

// Impl is a set of format functions to be compared against the pinned vectors (the reference
// itself, or the repository's implementation).
type Impl struct {
	Leaf          func(bridgeID, sequence uint64, sender, receiver, denom string, amount uint64) [32]byte
	Node          func(a, b []byte) [32]byte
	OutputRoot    func(version byte, storageRoot, lastBlockHash []byte) [32]byte
	L2Denom       func(bridgeID uint64, l1Denom string) string
	BridgeAddress func(bridgeID uint64) []byte
}

func RefImpl() Impl {
	return Impl{Leaf: Leaf, Node: Node, OutputRoot: OutputRoot, L2Denom: L2Denom, BridgeAddress: BridgeAddress}
}

func unhex(s string) []byte {
	b, err := hex.DecodeString(s)
	if err != nil {
		panic(err)
	}
	return b
}
func u64(s string) uint64 {
	v, err := strconv.ParseUint(s, 10, 64)
	if err != nil {
		panic(err)
	}
	return v
}

// CheckVectors compares impl with the pinned vectors; returns the number of vectors compared and
// the list of mismatches.
func CheckVectors(path string, impl Impl, withSha3 bool) (n int, bad []string, err error) {
	bz, err := os.ReadFile(path)
	if err != nil {
		return 0, nil, err
	}
	var vf vecFile
	if err := json.Unmarshal(bz, &vf); err != nil {
		return 0, nil, err
	}
	if withSha3 {
		for _, v := range vf.Sha3 {
			n++
			if h := Sum256(unhex(v.Msg)); hex.EncodeToString(h[:]) != v.Hash {
				bad = append(bad, fmt.Sprintf("sha3(%d bytes)", len(v.Msg)/2))
			}
		}
	}
	for _, v := range vf.Leaf {
		n++
		if h := impl.Leaf(u64(v.Bridge), u64(v.Seq), v.Sender, v.Receiver, v.Denom, u64(v.Amount)); hex.EncodeToString(h[:]) != v.Hash {
			bad = append(bad, fmt.Sprintf("leaf(bridge=%s seq=%s sender=%q receiver=%q denom=%q amount=%s)", v.Bridge, v.Seq, v.Sender, v.Receiver, v.Denom, v.Amount))
		}
	}
	for _, v := range vf.Node {
		n++
		if h := impl.Node(unhex(v.A), unhex(v.B)); hex.EncodeToString(h[:]) != v.Hash {
			bad = append(bad, fmt.Sprintf("node(%s,%s)", v.A[:8], v.B[:8]))
		}
	}
	for _, v := range vf.OutputRoot {
		n++
		if h := impl.OutputRoot(byte(v.Version), unhex(v.StorageRoot), unhex(v.BlockHash)); hex.EncodeToString(h[:]) != v.Hash {
			bad = append(bad, fmt.Sprintf("output_root(v=%d)", v.Version))
		}
	}
	for _, v := range vf.L2Denom {
		n++
		if d := impl.L2Denom(u64(v.Bridge), v.Denom); d != v.L2denom {
			bad = append(bad, fmt.Sprintf("l2denom(%s,%q)", v.Bridge, v.Denom))
		}
	}
	for _, v := range vf.BridgeAddr {
		n++
		if a := impl.BridgeAddress(u64(v.Bridge)); hex.EncodeToString(a) != v.Addr {
			bad = append(bad, fmt.Sprintf("bridge_addr(%s)", v.Bridge))
		}
	}
	for _, v := range vf.TreeRoot {
		n++
		var leaves [][32]byte
		for k := 0; k < v.N; k++ {
			leaves = append(leaves, impl.Leaf(1, uint64(k+1), fmt.Sprintf("from%d", k), fmt.Sprintf("to%d", k), "uinit", uint64(1000+k)))
		}
		// tree built with impl.Node through the reference builder's shape
		cur := leaves
		for len(cur) > 1 {
			var next [][32]byte
			for i := 0; i < len(cur); i += 2 {
				j := i + 1
				if j >= len(cur) {
					j = i
				}
				next = append(next, impl.Node(cur[i][:], cur[j][:]))
			}
			cur = next
		}
		if hex.EncodeToString(cur[0][:]) != v.Root {
			bad = append(bad, fmt.Sprintf("tree_root(n=%d)", v.N))
		}
	}
	return n, bad, nil
}
