package ref

import "testing"

func TestPinnedVectors(t *testing.T) {
	n, bad, err := CheckVectors("/verif/vectors/formats.json", RefImpl(), true)
	if err != nil || len(bad) > 0 || n < 200 {
		t.Fatalf("n=%d bad=%v err=%v", n, bad, err)
	}
	tr := BuildTree([][32]byte{{1}, {2}, {3}, {4}, {5}})
	for i := 0; i < 5; i++ {
		if RootFromProof(tr.Levels[0][i], tr.Proof(i)) != tr.Root() {
			t.Fatalf("proof %d", i)
		}
	}
}
