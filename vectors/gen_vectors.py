#!/usr/bin/env python3
"""Pinned vectors from an implementation that shares no code with /repo or the Go reference:
Python hashlib. Run once; the output is committed."""
import hashlib, json, struct
def sha3(b): return hashlib.sha3_256(b).digest()
def be(n): return struct.pack('>Q', n)
def leaf(b, seq, snd, rcv, den, amt):
    return sha3(sha3(be(b)+be(seq)+sha3(snd.encode())+sha3(rcv.encode())+sha3(den.encode())+be(amt)))
def node(a, b): return sha3(a+b) if a < b else sha3(b+a)
def outroot(v, sr, bh): return sha3(bytes([v])+sr+bh)
def l2denom(b, d): return 'l2/'+sha3(be(b)+d.encode()).hex()
def bridge_addr(b): return hashlib.sha256(hashlib.sha256(b'module').digest()+b'ophost\x00'+be(b)).digest()
def root(leaves):
    cur = leaves
    while len(cur) > 1:
        cur = [node(cur[i], cur[i+1] if i+1 < len(cur) else cur[i]) for i in range(0, len(cur), 2)]
    return cur[0]
out = {'sha3': [], 'leaf': [], 'node': [], 'output_root': [], 'l2denom': [], 'bridge_addr': [], 'tree_root': []}
for m in [b'', b'abc', b'a'*135, b'a'*136, b'a'*137, b'a'*272, bytes(range(256))]:
    out['sha3'].append({'msg': m.hex(), 'hash': sha3(m).hex()})
nums = [0, 1, 255, 256, 2**32, 2**63-1, 2**63, 2**64-1]
strs = ['', 'a', 'init1q6jhwnarkw2j5qqgx3qlu20k8nrdglft5ksr0g', 'x'*31, 'x'*32, 'x'*33, 'y'*200, 'дэном/ü', 'a\x00b', 'uinit', 'ibc/27394FB092D2ECCD56123C74F36E4C1F926001CEADA9CA97EA622B25F41E5EB2']
i = 0
for b in nums:
    for seq in nums:
        s, r, d = strs[i % len(strs)], strs[(i*3+1) % len(strs)], strs[(i*7+2) % len(strs)]
        a = nums[(i*5+3) % len(nums)]
        out['leaf'].append({'bridge': str(b), 'seq': str(seq), 'sender': s, 'receiver': r, 'denom': d, 'amount': str(a), 'hash': leaf(b, seq, s, r, d, a).hex()})
        i += 1
vals = [bytes(32), bytes([255])*32, bytes(31)+b'\x01', bytes([1])+bytes(31), sha3(b'1'), sha3(b'2')]
for a in vals:
    for b in vals:
        out['node'].append({'a': a.hex(), 'b': b.hex(), 'hash': node(a, b).hex()})
for v in [0, 1, 255]:
    for sr in vals[:3]:
        for bh in vals[3:]:
            out['output_root'].append({'version': v, 'storage_root': sr.hex(), 'block_hash': bh.hex(), 'hash': outroot(v, sr, bh).hex()})
for b in nums:
    for d in strs:
        out['l2denom'].append({'bridge': str(b), 'denom': d, 'l2denom': l2denom(b, d)})
    out['bridge_addr'].append({'bridge': str(b), 'addr': bridge_addr(b).hex()})
for n in range(1, 18):
    leaves = [leaf(1, k+1, 'from%d' % k, 'to%d' % k, 'uinit', 1000+k) for k in range(n)]
    out['tree_root'].append({'n': n, 'root': root(leaves).hex()})
json.dump(out, open('/verif/vectors/formats.json', 'w'), indent=0, ensure_ascii=True)
print({k: len(v) for k, v in out.items()})
