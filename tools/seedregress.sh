#!/bin/bash
# tools/seedregress.sh [i/n] — run every archived seeded change (or shard i of n) against its property's quick
# check; all must exit 1. MUTEST_TRIM defaults to 1 (trim the build caches between runs: only safe when nothing
# else builds at the same time); run shards in parallel with MUTEST_TRIM=0.
cd /verif
export MUTEST_TRIM=${MUTEST_TRIM:-1}
SH=${1:-0/1}; SI=${SH%/*}; SN=${SH#*/}
fail=0; k=0
for d in seeded/*/; do
  n=$(basename $d)
  if grep -q '"not_reached_by_the_harness": true' $d/meta.json 2>/dev/null; then echo "$n skipped (recorded miss: needs a configuration the harness cannot construct, see DESIGN.md)"; continue; fi
  if grep -q '"not_observable_on_a_chain": true' $d/meta.json 2>/dev/null; then echo "$n skipped (not observable under transaction semantics)"; continue; fi
  id=$(python3 -c "
import json;m=json.load(open('$d/meta.json'));c=m.get('check_exit_codes') or {}
ids=[k for k,v in c.items() if v==1]
print(m['property'] if m['property'] in ids or not ids else ids[0])")
  # ONLY_IDS="C01 C07" restricts the run to seeds whose catching check is one of these; ONLY_ROUND=R17 to one round
  if [ -n "${ONLY_IDS:-}${ONLY_ROUND:-}" ]; then
    keep=0
    for w in ${ONLY_IDS:-}; do [ "$w" = "$id" ] && keep=1; done
    case "$n" in "${ONLY_ROUND:-@none}"-*) keep=1;; esac
    [ $keep = 1 ] || continue
  fi
  k=$((k+1)); [ $((k % SN)) = "$SI" ] || continue
  out=$(tools/mutest.sh $d/patch.diff $id quick 2>&1 | grep -v '^KNOWN' | tail -3)
  rc=$(echo "$out" | grep -oE 'mutest exit=[0-9]+' | grep -oE '[0-9]+$')
  clause=$(echo "$out" | grep -oE 'violation detail: \[[^]]+\]' | head -1)
  echo "$n $id exit=$rc $clause"
  [ "$rc" = "1" ] || fail=1
done
echo "seedregress done fail=$fail"
