#!/bin/bash
# tools/mkmut.sh <out.diff> <file> <python-expr-on-s>   — make a patch by editing one file of a scratch worktree
# e.g. tools/mkmut.sh /var/tmp/muts/x.diff x/a.go 's.replace("a","b")'
set -e
OUT=$1; F=$2; EXPR=$3
WT=/var/tmp/mkmut-$$
git -C /repo worktree add --detach "$WT" HEAD >/dev/null 2>&1
trap 'git -C /repo worktree remove --force "$WT" >/dev/null 2>&1; git -C /repo worktree prune' EXIT
python3 - "$WT/$F" "$EXPR" <<'PY'
import sys
p, expr = sys.argv[1], sys.argv[2]
s = open(p).read()
n = eval(expr)
assert n != s, "edit changed nothing"
open(p, 'w').write(n)
PY
( cd "$WT" && gofmt -l "$F" >/dev/null; git diff ) > "$OUT"
echo "wrote $OUT ($(wc -l < $OUT) lines)"
