#!/bin/bash
# Regenerate the harness module's go.mod / go.sum from /repo's current tree so that the
# harness always builds against /repo as it is now (replace => /repo).
set -e
REPO=${VERIF_REPO:-/repo}
MC=${1:-/verif/mc}
tmp=$(mktemp "$MC/go.mod.XXXXXX")
sed -e 's#^module .*#module verifmc#' -e "s#=> ./api#=> $REPO/api#" "$REPO/go.mod" > "$tmp"
cat >> "$tmp" <<EOT

require github.com/initia-labs/OPinit v0.0.0

replace github.com/initia-labs/OPinit => $REPO
EOT
if ! cmp -s "$tmp" "$MC/go.mod"; then mv "$tmp" "$MC/go.mod"; else rm -f "$tmp"; fi
if ! cmp -s "$REPO/go.sum" "$MC/go.sum.repo" 2>/dev/null; then
  cp "$REPO/go.sum" "$MC/go.sum"; cp "$REPO/go.sum" "$MC/go.sum.repo"
fi
