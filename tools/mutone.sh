#!/bin/bash
# tools/mutone.sh <file> <line> '<from>' '<to>' <Cxx> [Cyy...] — apply a one-token mutant to a scratch worktree and run checks against it
F=$1; L=$2; A=$3; B=$4; shift 4
WT=/var/tmp/mutone-wt-$$; git -C /repo worktree add --detach $WT HEAD >/dev/null 2>&1
python3 - "$WT/$F" "$L" "$A" "$B" <<'PY'
import sys
p,l,a,b=sys.argv[1],int(sys.argv[2]),sys.argv[3],sys.argv[4]
ls=open(p).read().split('\n'); assert a in ls[l-1],(ls[l-1],a); ls[l-1]=ls[l-1].replace(a,b,1); open(p,'w').write('\n'.join(ls))
PY
(cd $WT && git diff > /var/tmp/mutone-$$.diff)
git -C /repo worktree remove --force $WT >/dev/null 2>&1; git -C /repo worktree prune
for c in "$@"; do /verif/tools/mutest.sh /var/tmp/mutone-$$.diff $c quick 2>&1 | grep -v "^WARNING\|^KNOWN\|Conda\|Caused by\|^$" | tail -2 | cut -c1-300; done
rm -f /var/tmp/mutone-$$.diff
