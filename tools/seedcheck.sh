#!/bin/bash
# tools/seedcheck.sh <Cxx> <seed-dir> [checks...]  — confirm an independently written property-breaking
# change (patch.diff + demo test + NOTES.md in <seed-dir>) in a scratch worktree:
#   1. patch applies, repo builds, unedited suite passes with the patch
#   2. the demo test fails with the patch and passes without it
#   3. run the named checks (default: the property's own) against the patched tree
# Prints a summary; writes /var/tmp/seedcheck-<Cxx>.json. Never touches /repo.
set -u
ID=$1; SD=$(readlink -f "$2"); shift 2
CHECKS=${*:-$ID}
WT=/var/tmp/seedchk-wt-$$
cleanup() { git -C /repo worktree remove --force "$WT" >/dev/null 2>&1; rm -rf "$WT"; git -C /repo worktree prune; }
trap cleanup EXIT
git -C /repo worktree add --detach "$WT" HEAD >/dev/null 2>&1 || { echo "worktree failed"; exit 3; }
DEMO=$(ls "$SD"/*_test.go 2>/dev/null | head -1)
[ -f "$SD/patch.diff" ] && [ -n "$DEMO" ] || { echo "seed dir incomplete: need patch.diff and a *_test.go"; exit 3; }
# where does the demo go? NOTES.md should say; fall back to the package named in the file's first line + grep
PKGDIR=$( (grep -oE 'x/[a-z/]+/seed[a-z_0-9]*_test\.go' "$SD/NOTES.md"; grep -oE 'x/[a-z/]+/[a-z_0-9]+_test\.go' "$SD/NOTES.md") | head -1 | xargs -r dirname)
[ -n "$PKGDIR" ] || { echo "cannot find demo placement in NOTES.md"; exit 3; }
TESTNAME=$(grep -oE '^func (Test[A-Za-z0-9_]+)' "$DEMO" | head -1 | awk '{print $2}')
run_demo() { ( cd "$WT" && cp "$DEMO" "$PKGDIR/" && env -u GOFLAGS GOPROXY=off go test -vet=off -count=1 -run "^${TESTNAME}\$" "./$PKGDIR/" 2>&1 | tail -15; ); }
echo "== demo without the change"; R0=$(run_demo); echo "$R0" | tail -3
echo "$R0" | grep -q '^ok' && PASS_WITHOUT=true || PASS_WITHOUT=false
( cd "$WT" && git apply "$SD/patch.diff" ) || { echo "patch does not apply"; exit 3; }
echo "== build + suite with the change"
( cd "$WT" && rm -f "$PKGDIR/$(basename $DEMO)" && env -u GOFLAGS GOPROXY=off go build ./... ) && BUILD=true || BUILD=false
SUITE=$(cd "$WT" && env -u GOFLAGS GOPROXY=off go test -vet=off -count=1 ./... 2>&1 | grep -v "no test files")
echo "$SUITE" | grep -v '^ok' | head -10
echo "$SUITE" | grep -qE '^(FAIL|---|panic)' && SUITE_OK=false || SUITE_OK=true
echo "== demo with the change"; R1=$(run_demo); echo "$R1" | tail -3
echo "$R1" | grep -qE '^(FAIL|--- FAIL)' && FAIL_WITH=true || FAIL_WITH=false
( cd "$WT" && rm -f "$PKGDIR/$(basename $DEMO)" )
RESULTS=""
for c in $CHECKS; do
  echo "== check $c against the change"
  OUT=$(/verif/tools/mutest.sh "$SD/patch.diff" "$c" quick 2>&1 | grep -v '^KNOWN' | tail -4 | cut -c1-700)
  echo "$OUT"
  rc=$(echo "$OUT" | grep -oE 'mutest exit=[0-9]+' | grep -oE '[0-9]+$')
  RESULTS="$RESULTS\"$c\":$rc,"
done
cat > /var/tmp/seedcheck-$ID.json <<J
{"id":"$ID","build":$BUILD,"suite_passes_with_change":$SUITE_OK,"demo_passes_without":$PASS_WITHOUT,"demo_fails_with":$FAIL_WITH,"demo_pkg":"$PKGDIR","demo_test":"$TESTNAME","check_exit":{${RESULTS%,}}}
J
cat /var/tmp/seedcheck-$ID.json
