#!/usr/bin/env python3
"""Regenerates /verif/MANIFEST.json from the table below (kept valid at all times)."""
import json, subprocess, os, sys
V = os.path.dirname(os.path.dirname(os.path.abspath(__file__)))
baseline = json.load(open('/root/.vp/BASELINE.json'))['cmd']

# id -> (category, technique, text, note, design_ref)
CHECKS = {
 "C11": ("model_checking",
         "explicit-state IDDFS over real handlers + reference log",
         "Exhaustive enumeration (iterative-deepening DFS with a transposition table on the full-store digest) of every propose/delete/advance history over two bridges up to the completed depth, executing the real ophost MsgServer with runTx semantics; after every transition a per-bridge reference log is compared with the OutputProposals/OutputProposal queries, the next-index counter and the raw store, acceptance must imply the model's guard and rejection must leave the digest unchanged.",
         "Trusted: Go toolchain, cosmos-sdk store/auth/bank, harness world construction (mirrors the repo's test setup), one-message-per-tx = baseapp.runTx semantics. Bounded: 2 bridges, period 10s, depth 5 (quick) / 7 (thorough).",
         "DESIGN.md §6 C11"),
}
NOT_YET = {}

def main():
    props = [json.loads(l) for l in open(os.path.join(V, 'properties.jsonl'))]
    checks, na = [], []
    for p in props:
        pid = p['id']
        if pid in CHECKS:
            cat, tech, text, note, ref = CHECKS[pid]
            checks.append({
                "property_id": pid,
                "quick_cmd": f"./check {pid} quick",
                "thorough_cmd": f"./check {pid} thorough",
                "evidence_file": f"/verif/evidence/{pid}.json",
                "replay_cmd_template": f"./check {pid} --replay {{path}}",
                "engine": "mc",
                "level_claimed": {"category": cat, "text": text, "design_ref": ref},
                "level_note": note,
                "technique": tech,
            })
        else:
            na.append({"property_id": pid, "reason": NOT_YET.get(pid, "check not built yet in this round (planned: bounded exhaustive exploration per DESIGN.md §6); not claimed until it exists")})
    m = {
        "version": 1,
        "setup_cmd": "./setup.sh",
        "hooks": {
            "guard": "verif",
            "enable": "no source hooks are needed: the harness module under /verif/mc builds against /repo through a replace directive; the only instrumentation is a generated go build -overlay (C18) that leaves /repo untouched",
            "baseline_off_cmd": baseline,
            "source_commits": [],
            "add_only": True,
        },
        "engines": [{"name": "mc", "path": "/verif/mc", "serves_properties": sorted(CHECKS),
                     "kind_free_text": "hand-written explicit-state model checker in Go: iterative-deepening DFS over the real message handlers with CacheMultiStore branching as snapshot mechanism, transposition table on a full-store SHA-256 digest, 16-way sharding; exhaustive probe matrices (Mode P) in every explored state; choice-point DFS for fault injection and map order (Mode C)"}],
        "checks": checks,
        "not_applicable": na,
        "notes": "All checks: ./check <id> quick|thorough rebuilds the harness against /repo's current working tree. Exit 0 = held on everything explored, 1 = VIOLATION line, 2 = harness error (never a verdict). Known findings: /verif/known_findings.json.",
    }
    json.dump(m, open(os.path.join(V, 'MANIFEST.json'), 'w'), indent=1)
    try:
        import jsonschema
        jsonschema.validate(m, json.load(open('/root/.vp/MANIFEST.schema.json')))
        print("MANIFEST.json valid;", len(checks), "checks,", len(na), "not_applicable")
    except ImportError:
        print("jsonschema not available; wrote MANIFEST.json")
if __name__ == '__main__':
    main()
