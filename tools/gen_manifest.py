#!/usr/bin/env python3
"""Regenerates /verif/MANIFEST.json from the table below (kept valid at all times)."""
import json, subprocess, os, sys
V = os.path.dirname(os.path.dirname(os.path.abspath(__file__)))
baseline = json.load(open('/root/.vp/BASELINE.json'))['cmd']

# id -> (category, technique, text, note, design_ref)
CHECKS = {
 "C11": ("model_checking",
         "explicit-state IDDFS over real handlers + reference log",
         "Exhaustive enumeration (iterative-deepening DFS with a transposition table on the full-store digest) of every propose/delete/advance/restart-via-genesis history over two bridges up to the completed depth, executing the real ophost MsgServer with runTx semantics; after every transition a per-bridge reference log is compared with the OutputProposals (whole, and paged by 1 and 2, forward and reverse), OutputProposal and LastFinalizedOutput queries, the next-index counter and the raw store (L2 block numbers include 2^64-1 and what wraps around after it), acceptance must imply the model's guard and rejection must leave the digest unchanged.",
         "Trusted: Go toolchain, cosmos-sdk store/auth/bank, harness world construction (mirrors the repo's test setup), one-message-per-tx = baseapp.runTx semantics. Bounded: 2 bridges, period 10s, depth 5 (quick) / 7 (thorough).",
         "DESIGN.md §6 C11"),
 "C02": ("model_checking",
         "explicit-state IDDFS over real handlers + paid-ledger model",
         "Exhaustive enumeration of every propose/delete/re-propose/advance/finalize history (3 leaves, two trees sharing leaves, a bogus root, output indices 1-2, two submitters) up to the completed depth on the real ophost handlers; oracle: paid[w] <= 1, a finalize is accepted only against a stored, final output whose root matches the proof's tree (independent leaf/tree/output-root code), recipient and escrow balances equal the paid ledger, Claimed query iff paid in every state, rejected messages leave the digest unchanged. Bridge 2 has a final output and a paid withdrawal of its own from the start; one Finalize letter resubmits a withdrawal with its recipient spelled in upper-case bech32 (another string, hence no committed leaf). A RestartViaGenesis letter (module genesis exported, JSON round trip, ValidateGenesis, import into the emptied module store) is part of the alphabet, so every clause is also decided across chain restarts.",
         "Trusted: as C11 plus the independent SHA3/merkle reference (pinned against Python hashlib vectors). Bounded: 3 leaves, depth 6 (quick) / 8 (thorough).",
         "DESIGN.md §6 C02"),
 "C05": ("model_checking",
         "explicit-state IDDFS with deadline-region time menu",
         "Per finalization period of a menu (sub-second, fractional, huge), exhaustive enumeration of propose/delete/finalize/role-update histories interleaved with every block time of the deadline-region menu (each stored output's deadline -1s, -1ns, 0, +1ns, +999ms, +1s), on the real handlers; oracle clauses: no finality gate passes before deadline-1s, non-final outputs are deletable by every authorised role, finalize gate = delete guard = IsFinalized = LastFinalizedOutput, final outputs stay stored/identical/final across every transition, stored period constant; plus the creation/genesis probe over positive, zero and negative periods. A RestartViaGenesis letter (module genesis exported, JSON round trip, ValidateGenesis, import into the emptied module store) is part of the alphabet, so every clause is also decided across chain restarts.",
         "Trusted: as C11. The one-second band of the property is built into the oracle. Bounded: <= 3 live outputs, depth 7 (quick) / 9 (thorough), period menu.",
         "DESIGN.md §6 C05"),
 "C10": ("model_checking",
         "explicit-state IDDFS over real handlers + per-bridge counter model",
         "Exhaustive enumeration of all interleavings of bridge creation and deposits over three bridge ids (two created mid-history), two denoms, zero/non-zero amounts, short/long recipients, payloads and an unfunded sender; oracle: accepted => bridge exists, returned sequence = that bridge's own counter, exactly one event with the 8 requested attributes, balances moved by the amount, token pair = independent derivation and immutable; a freshly created bridge has nothing pre-recorded; Two 82-character denoms sharing their first 80 characters are deposited into bridge 1. Plain bank transfers reach the escrow address of bridge 1 (a denom nobody deposited yet) and of bridge 2 (before and after its creation). NextL1Sequence, TokenPairs (whole and paged), TokenPairByL1Denom and TokenPairByL2Denom queries = model in every state. A RestartViaGenesis letter (module genesis exported, JSON round trip, ValidateGenesis, import into the emptied module store) is part of the alphabet, so every clause is also decided across chain restarts.",
         "Trusted: as C11 plus the independent L2-denom / bridge-address derivations. Bounded: 3 ids, depth 6 (quick) / 9 (thorough).",
         "DESIGN.md §6 C10"),
 "C01": ("model_checking",
         "explicit-state IDDFS over real handlers + balance ledger + per-bridge slices",
         "Exhaustive enumeration of every history over create/deposit/propose/delete/advance/finalize/bank-send/role-update letters on three bridge ids (one never created), two denoms and two trees that differ only in the bridge id, with and without a registration fee; after every transition the ledger model equals every account's balances (and supply = sum of known accounts), the raw records and escrow of every non-addressed bridge are byte-identical, escrow decreases only through a successful finalize of the same bridge with a leaf of that bridge's tree, a deposit is accepted only into an existing bridge (also after a third party sent coins to the address a future bridge will have), and rejected messages (incl. an under-funded escrow) leave the digest unchanged; in every state with a final output every leaf is also claimed with amount+1, amount+2^64 and 2^64 against an escrow topped up to cover it, and must be refused. A RestartViaGenesis letter (module genesis exported, JSON round trip, ValidateGenesis, import into the emptied module store) is part of the alphabet, so every clause is also decided across chain restarts.",
         "Trusted: as C11 plus the independent leaf/tree code. Bounded: depth 5 (quick) / 7 (thorough) without a registration fee, 4 / 6 with one; amounts 0-2.",
         "DESIGN.md §6 C01"),
 "C03": ("model_checking",
         "explicit-state search for oracle states + exhaustive perturbation matrix per state",
         "Mode S enumerates every oracle state (no output / pending / final / deleted / re-proposed with another root / claimed / other bridge holds the same root) for tree sizes {1,2,5} plus size 3 committed with the repository helpers (quick) / 1-9 (thorough); in every state and for every leaf position the whole perturbation family (each field, every proof element bit flips/replacements/swaps/truncations, proof length, output index, version bits, storage root, block hash, whole-preimage swaps, +2^64 amount, pairs of field representatives) is executed on the real FinalizeTokenWithdrawal handler and compared with an independent verifier (own SHA3): accepted => verifier-valid, pays the claimed amount to the claimed recipient and records the claim; rejected => digest unchanged.",
         "Trusted: as C11 plus the independent SHA3/leaf/node/output-root reference pinned to Python hashlib vectors. Bounded: tree sizes and perturbation menus as listed in the evidence.",
         "DESIGN.md §6 C03"),
 "C06": ("model_checking",
         "explicit-state IDDFS over real handlers + sequence/ledger model",
         "Exhaustive enumeration of all delivery schedules over 4 L1 sequences x 3 senders (two executors, a stranger) x 2 contents (original / altered replay), interleaved with user withdrawals, transfers and executor-list changes via ExecuteMessages; the reachable state space saturates well below the depth bound. Oracle per transition: seq < next => NOOP + unchanged digest + no event, seq > next => error + unchanged, seq = next => SUCCESS, one event, credited or refunded exactly once, next+1; non-executor => unauthorised, unchanged; NextL1Sequence/NextL2Sequence queries, balances, supply = model in every state. The executor registers / refreshes the bridge info at any point (other bookkeeping must not touch the sequence). Sequence 3 is a credited deposit whose hook fails; sequence 4 carries a hook in which the delivering executor relays sequence 4 once more (re-entrancy: a no-op). A RestartViaGenesis letter (module genesis exported, JSON round trip, ValidateGenesis, import into the emptied module store) is part of the alphabet, so every clause is also decided across chain restarts.",
         "Trusted: Go toolchain, cosmos-sdk store/auth/bank, harness world construction (mirrors the repo's test setup), runTx semantics. Bounded: 4 sequences, depth 8 (quick) / 11 (thorough).",
         "DESIGN.md §6 C06"),
 "C09": ("model_checking",
         "explicit-state IDDFS over real handlers + supply/balance ledger",
         "Exhaustive enumeration of deposit (credited and refunded, conflicting base denoms), transfer and withdrawal histories over bridged, native and unknown denoms, three signers and amounts {1, balance, balance+1}; oracle: supply and every balance = ledger in every state, an accepted withdrawal burns exactly its amount from the signer only, gets the shared gap-free L2 sequence, emits one faithful event whose base denom is the first mapping; native/unknown/over-balance withdrawals are rejected with an unchanged digest; BaseDenom and NextL2Sequence queries = model. Deposits with a failing hook (undecodable, and a signed [withdraw 1, send too much]) are part of the alphabet. A RestartViaGenesis letter (module genesis exported, JSON round trip, ValidateGenesis, import into the emptied module store) is part of the alphabet, so every clause is also decided across chain restarts.",
         "Trusted: as C06. Bounded: depth 6 (quick) / 8 (thorough).",
         "DESIGN.md §6 C09"),
 "C13": ("model_checking",
         "explicit-state IDDFS over real handlers and Begin/EndBlocker + real CometBFT ValidatorSet mirror",
         "Exhaustive enumeration of every grouping of add/remove/param operations into blocks over 3 operators x 3 consensus keys from two genesis sets (through the real InitGenesis); every EndBlock batch is validated (no key twice, no unknown removal, no negative power) and applied to a real CometBFT ValidatorSet; at every block boundary mirror = positive-power validators = LastValidatorPowers, bonded <= MaxValidators, removed validators are gone, the historical record lists exactly the bonded set and, as long as no block has run with retention 0, only heights within the retention (menu 0/1/3); indexes one-to-one in every state, read through the store, Query/Validators (whole and paged), Query/Validator and the staking-style accessors (ValidatorByConsAddr, Validator, IterateValidators, IterateLastValidators); on a chain whose consensus parameters list ed25519 only, an AddValidator with a secp256k1 key never leads to an update the engine would refuse.",
         "Trusted: as C06 plus CometBFT's ValidatorSet.UpdateWithChangeSet as the engine oracle. Removing the last validator is classified separately (outside the property's acceptance clause). Bounded: depth 6 (quick) / 8 (thorough).",
         "DESIGN.md §6 C13"),
 "C14": ("model_checking",
         "explicit-state IDDFS (C13 system + plan letters) + registration probe matrix per state",
         "C13's search with a RegisterPlan letter (two heights x 9 operator/key combinations + executor-list variants incl. an empty list and a repeated executor + decodable keys no consensus key can be made from (multisig, 3-byte ed25519), at most one per history; operator addresses sort o2 < o1 < o3 so that fresh operators fall on both sides of the genesis operator) so that plans meet every validator-set state, max-validator setting and same-block add/remove; the process-local plan table is part of the state. Oracle at the plan height: EndBlock succeeds, batch accepted by the CometBFT mirror, engine holds exactly the plan key, state agrees, executors = exactly the plan list (and the genesis list before); C13's oracle at all other heights; malformed-registration probes in every state (past/current height, occupied height with another and with the same proposal id, empty fields, bad executor address first / middle / last / only, wrong prefix, unparsable key) leave table and digest unchanged. Known findings D6a/D6b (plan reusing an existing operator with another key / another operator's key) are listed in known_findings.json with structural predicates.",
         "Trusted: as C13. Bounded: depth 5 (quick) / 6 (thorough).",
         "DESIGN.md §6 C14, §7"),
 "C17": ("model_checking",
         "exhaustive enumeration of value menus x tree shapes x memory layouts against an independent implementation",
         "Every configuration of the stated finite menus is enumerated: leaf hash over the full product of boundary numbers and strings, node hash over all ordered pairs (incl. equal/adjacent/all-zero/all-ff) in both argument orders, output roots, L2 denoms, bridge addresses, root-from-proof for trees of 1-9 leaves at every position; each byte-slice input in all 3^n memory layouts (exact capacity / spare capacity with sentinel / sub-slices of one buffer). Oracle: repository value = independent implementation (own SHA3, pinned to Python hashlib vectors) = pinned vectors; result identical in every layout; every byte of every caller backing array unchanged; FinalizeTokenWithdrawal accepts a claim that is valid by the documented formats for every bridge id x output index in {1,2}^2 and under every layout of proofs/storage root/block hash; history independence: every ordered pair (thorough: triple) of root-from-proof calls from a 30-input menu (valid proofs, bit flips, swapped elements) and every ordered pair of node-hash argument pairs is run on one shared, in-place overwritten memory and each answer must be the independent implementation's for the bytes given.",
         "Trusted: Go toolchain; the pinned vectors (generated once by vectors/gen_vectors.py with hashlib). Bounded: boundary values represent the 64-bit ranges; proof lists up to 4 elements.",
         "DESIGN.md §6 C17"),
 "C04": ("model_checking",
         "exhaustive enumeration of withdrawal trees through both chains' real handlers + independent tree builder",
         "Every withdrawal tree of the stated menus is run through both chains: withdrawals are produced only by the real L2 handlers (user InitiateTokenWithdrawal and the refund path of FinalizeTokenDeposit), parsed from events, committed with the independent sorted-pair tree builder (own SHA3), proposed and finalized on L1, and every leaf is claimed. Enumerated: all single descriptors of kind (user withdrawal, refund of a malformed-recipient deposit, one or two withdrawals executed inside the deposit's own hook) x amount {1, 2^63-1, 2^63, 2^64-1, 2^64, 2^64+1, 2^128} x denom {short, 128-char, ibc/...} x recipient {lower, upper-case bech32, fresh account, L1 module account on the bank's blocked list}; relays are built from L1's events, the committing output is the bridge's second of three (neither oldest nor newest when claimed), refunds also go to an upper-case L1 sender; all trees of size 2-3 (quick) / 2-4 (thorough) over a 12-entry menu; one covering tree per size up to 17. Oracle: every recorded withdrawal with a valid L1 recipient is paid exactly its amount; recording an amount that cannot be committed to a leaf, or a refund to an unpayable recipient, is a violation.",
         "Trusted: as C08. Bounded: menus as listed; holdings above one deposit are produced by minting on L2 and funding the escrow.",
         "DESIGN.md §6 C04"),
 "C08": ("model_checking",
         "explicit-state IDDFS over two chains connected by parsed events + drain from every state",
         "Exhaustive enumeration of all interleavings of user deposits (credited, refunded for a malformed recipient, refunded after a failing hook, and a deposit whose signed two-message hook withdraws half of it again and sends the other half on), L2 transfers and withdrawals, restarts of either chain through its exported genesis, relays (incl. duplicates and delays), proposals built from recorded withdrawals, challenges with re-proposal, time advances and claims, over two denoms; in every state escrow_L1 = supply_L2 + pending deposits + unpaid recorded withdrawals per denom; from every distinct state a deterministic drain must make every claim succeed exactly once (second claim fails), escrow = L2 supply, users' combined holdings = initial.",
         "Trusted: Go toolchain, cosmos-sdk store/auth/bank, world construction, faithful-relayer harness (queues only from parsed events), independent tree builder. Bounded: depth 6 (quick) / 8 (thorough).",
         "DESIGN.md §6 C08"),
 "C19": ("model_checking",
         "explicit-state IDDFS over real handlers + real BridgeHook, full metadata probe matrix per state",
         "Exhaustive enumeration of create / update-metadata / update-challenger / channel-send histories over two bridges, two challengers, four channels on two ports (one missing; icqhost/channel-1 shares its channel id with transfer/channel-1) with the real hook.BridgeHook wired over store-backed channel/perm keepers (they branch and roll back with the transaction); in every explored state the full 25-entry metadata menu (documented lists, unknown fields, duplicate and differently-cased keys, null, wrong types, non-JSON, empty, oversized) is probed through CreateBridge and UpdateMetadata. An independent metadata reader classifies P/N/A; oracle: any admin change goes to the bridge's challenger, only on listed channels, only on channels that existed with next-send-sequence 1 and no admin (or were already his); P and success => all listed channels administered by the challenger; failure => admin table unchanged; N => never touched; challenger update hands over exactly the listed channels — also when the metadata stored at that moment is any of the 25 shapes (two-step probes UpdateMetadata(m) ; UpdateChallenger in every state).",
         "Trusted: as C11; channel and ibc-perm keepers are a harness KV store (IsTaken = an admin is set). Bounded: depth 5 (quick) / 6 (thorough).",
         "DESIGN.md §6 C19"),
 "C20": ("model_checking",
         "exhaustive input matrices on the real ante/lane code + probe family in every state of C06's search",
         "Fee floor: every (node price vector, chain price vector, gas, fee coin set at/around the floor, mode) of the menus is evaluated on the real MempoolFeeChecker and CombinedMinGasPrices against an exact math/big.Rat oracle (admitted <=> all floors zero or some positive-floor denom paid >= ceil(gas*max(node,chain)); nothing enforced outside checking). Lanes: every message-list/nesting shape for the system lane and every whitelist x payer x granter case for the free lane. Redundant relay: in every state of C06's system, every deposit-message list of length <= 3 over {stale, next, next+1, gap, stranger} with and without a non-deposit message in CheckTx/ReCheckTx/DeliverTx/simulate on the real RedundantBridgeDecorator.",
         "Trusted: as C06; tx objects built with the real TxConfig builder. Bounded: menus as listed in the evidence (chain price menu reduced in the quick tier).",
         "DESIGN.md §6 C20"),
 "C07": ("model_checking",
         "exhaustive input product x deviation-bounded choice-point DFS over keeper-call faults (stateless exploration of the real handler)",
         "L1-emittable family: 320 raw L1 deposit messages (denoms incl. invalid syntax, amounts 0/1/2^64-1/2^64, recipients, payloads) go through the real L1 handler, and whatever it accepts must finalize on L2 at the expected sequence. Every deposit input of the product start state {fresh, after credited+refunded deposits} x recipient {existing, fresh, malformed, empty, other-prefix bech32, blocked module account, opchild module account} x amount {0, 1, 2^64-1} x denom {new, already paired} x HookMaxGas {0, tight, default} x outer gas meter {infinite, ample finite} x hook payload {none, random bytes, truncated tx, bad signature, wrong sequence, unroutable message, signed [ok], [ok,ok], [ok,fail], [fail], panicking, gas-exhausting, executor-signed relay of the very sequence being processed} is finalized on the real handler; then, Mode C: an error (where the method can return one) and a panic is injected at every individual call the handler makes through the BankKeeper/AccountKeeper interfaces handed to opchild.NewKeeper and to the hook's signature-verification decorator chain (bound 1 in quick, 2 in thorough; a re-run fails hard if its recorded prefix is not reached again). Oracle: SUCCESS and exactly one of credited / refunded-to-the-L1-sender at the next L2 sequence; failed hooks leave no effects but the signer's sequence; hook gas <= HookMaxGas (outer charge and inner limit); faults inside the mint/transfer cache section or the hook never become handler errors; faults elsewhere are atomic.",
         "Trusted: as C06; hook target = real bank MsgSend behind a wrapper that panics / burns gas on magic amounts; fault points are interface calls (bank-internal calls are not intercepted).",
         "DESIGN.md §6 C07"),
 "C12": ("model_checking",
         "explicit-state search over role rotations (saturating) + full message-type x signer matrix per state",
         "L1: every role assignment reachable by UpdateProposer/UpdateChallenger (to X or X2, by governance or by the current holder) on two bridges is enumerated (the state space saturates at 16 assignments); L2 (one deposit already processed, so that stale replays can be offered by every signer): admin changes, executor-list changes (both through ExecuteMessages), bridge-info binding and executor-change plans (lists [e2], [e3], [e2,e3]: shorter, longer, differently ending) executed by the real EndBlocker (the state space saturates). In every state every message type of the module is delivered by every signer (governance/authority, every current and past role holder, batch submitter, creator, stranger), built so that it would succeed but for authorization; oracle = the property's role table on the model's current holders (allowed => succeeds, also for a new holder immediately; otherwise fails with an unchanged digest), signer read back through GetMsgV1Signers; ExecuteMessages batches are all-or-nothing with authority-only inner signers; SetBridgeInfo cannot re-point bridge id, address, L1 chain id or a set L1 client id.",
         "Trusted: as C11/C06. UpdateOracle carries a fully signed commit wherever the L1 client is bound and a host validator set is recorded; elsewhere only its authorization class is probed.",
         "DESIGN.md §6 C12"),
 "C15": ("model_checking",
         "explicit-state search over update/refresh histories + exhaustive vote-shape product per state",
         "Mode S enumerates histories of oracle updates (three timestamps, full and partial pair coverage), validator-set refreshes (lower/equal/higher height x configured/other/empty client x same/other set) and oracle-flag toggles; in every state the recorded set is compared key by key with the last accepted refresh and the validators of the set that is not recorded sign everything (plus, in a third configuration whose bridge info starts without an L1 client id so that no set can be recorded, the one-time SetL1ClientId) on the real UpdateOracle handler, connect x/oracle keeper, codecs and vote aggregator; Mode P executes, at the root (and every depth-1 state in the thorough tier), all 16^n combinations of per-validator vote shapes (absent, signed p/q, missing pair, missing timestamp, bad signature, other chain id / height / round, listed twice, non-commit empty / with extension / with unsigned extension / with signature only, commit flag with unsigned extension, correctly signed undecodable extension) x unknown validator, and in every state the sender / update-height / equal-and-older-timestamp variations. Oracle (soundness direction): a changed price implies executor, flag on, height >= recorded set height, distinct known validators with a correctly signed price (by the harness's own signing bookkeeping) holding >= 2/3 of the recorded power, strictly larger timestamp; rejected => digest unchanged; set replaced => configured client and strictly higher height.",
         "Trusted: as C06 plus connect's codecs/aggregator and CometBFT ed25519. Bounded: validator sets (1,1,1), (3,1,1) and (thorough) (2,1,1,1); depth 3 (quick) / 4 (thorough).",
         "DESIGN.md §6 C15"),
 "C16": ("model_checking",
         "explicit-state IDDFS over all message types + export/import/differential probe script in every state",
         "Mode S enumerates histories (from a one-bridge root and from a root with two bridges that each have deposits, a final output, a paid withdrawal and a batch-info change) over every ophost message type (two bridges, deposits, propose/delete/re-propose, claims, two batch-info updates, metadata, oracle flag, role updates, params, time) and every opchild message type (credited and refunded deposits, withdrawals, add/remove validators, params, bridge info, blocks). In every distinct state the module genesis is exported (with auth and bank carried along), validated, round-tripped through JSON, imported into a blank world by the real InitGenesis, re-exported (must be byte-identical), the imported module store compared key by key with the original (L1 may add per-bridge counters at their default; L2 lacks only per-height history and the recorded L1 validator set), and a fixed probe script (every message type incl. wrong signers, stale/next deposits, claims against two indices, deletes, creation, two blocks; every query type) is run on original and clone: responses, errors, events, validator updates and final exports must be identical. L2: InitGenesis's validator updates applied to an empty CometBFT set = bonded set.",
         "Trusted: as C11/C06; auth and bank genesis import/export of the SDK. Bounded: depth 4/5 (L1) and 5/6 (L2).",
         "DESIGN.md §6 C16"),
 "C18": ("model_checking",
         "explicit-state IDDFS with every transition re-executed on the same node, on an independent node and under every map-iteration order (generated go build -overlay) + type-aware nondeterminism census",
         "A stdlib-only type-aware census (go list -export + go/types) of the current tree's non-test, non-generated sources of both modules reports every map range, goroutine, select, channel operation, wall-clock, randomness and environment read; every map range is rewritten by a generated build overlay (leaving /repo untouched) to iterate in an order the harness chooses per goroutine; anything else outside the telemetry whitelist is a violation. Mode S over every message type of both modules plus blocks, oracle updates with three voters (one with a fresh timestamp and partial pair coverage, one that is rejected part-way through its write loop) and an executor-change plan; every transition of every explored state is executed twice on the same node, once on a second independently constructed node loaded with the parent's raw store content, and once per permutation (all n! for n <= 4) at every instrumented map site it reaches (a re-run fails hard if the recorded site is not reached again). A violation is confirmed by replaying it in two fresh processes (the property is about independence from what the process did before). Response bytes, full error text, ordered events, gas, ordered validator updates and the digest of every store must be identical.",
         "Trusted: Go toolchain (go list, go/types, -overlay); map iteration inside dependencies is exercised only by Go's own randomisation across the >= 3 executions of each transition. Bounded: depth 3/4 (L1) and 4/5 (L2).",
         "DESIGN.md §6 C18, §4"),
}
NOT_YET = {}

def main():
    props = [json.loads(l) for l in open(os.path.join(V, 'properties.jsonl'))]
    checks, na = [], []
    for p in props:
        pid = p['id']
        if pid in CHECKS:
            cat, tech, text, note, ref = CHECKS[pid]
            checks.append({
                "property_id": pid,
                "quick_cmd": f"./check {pid} quick",
                "thorough_cmd": f"./check {pid} thorough",
                "evidence_file": f"/verif/evidence/{pid}.json",
                "replay_cmd_template": f"./check {pid} --replay {{path}}",
                "engine": "mc",
                "level_claimed": {"category": cat, "text": text, "design_ref": ref},
                "level_note": note,
                "technique": tech,
            })
        else:
            na.append({"property_id": pid, "reason": NOT_YET.get(pid, "check not built yet in this round (planned: bounded exhaustive exploration per DESIGN.md §6); not claimed until it exists")})
    m = {
        "version": 1,
        "setup_cmd": "./setup.sh",
        "hooks": {
            "guard": "verif",
            "enable": "no source hooks are needed: the harness module under /verif/mc builds against /repo through a replace directive; the only instrumentation is a generated go build -overlay (C18) that leaves /repo untouched",
            "baseline_off_cmd": baseline,
            "source_commits": [],
            "add_only": True,
        },
        "engines": [{"name": "mc", "path": "/verif/mc", "serves_properties": sorted(CHECKS),
                     "kind_free_text": "hand-written explicit-state model checker in Go: iterative-deepening DFS over the real message handlers with CacheMultiStore branching as snapshot mechanism, transposition table on a full-store SHA-256 digest, 16-way sharding; exhaustive probe matrices (Mode P) in every explored state; choice-point DFS for fault injection and map order (Mode C)"}],
        "checks": checks,
        "not_applicable": na,
        "notes": "All checks: ./check <id> quick|thorough rebuilds the harness against /repo's current working tree. Exit 0 = held on everything explored, 1 = VIOLATION line, 2 = harness error (never a verdict). Known findings: /verif/known_findings.json.",
    }
    json.dump(m, open(os.path.join(V, 'MANIFEST.json'), 'w'), indent=1)
    try:
        import jsonschema
        jsonschema.validate(m, json.load(open('/root/.vp/MANIFEST.schema.json')))
        print("MANIFEST.json valid;", len(checks), "checks,", len(na), "not_applicable")
    except ImportError:
        print("jsonschema not available; wrote MANIFEST.json")
if __name__ == '__main__':
    main()
