#!/bin/bash
# Runs the repository's pinned test suite (the BASELINE command) on a tree (default /repo) and
# prints pass/fail counts.
R=${1:-/repo}
cd $R && unset GOFLAGS && for m in . ./api; do (cd $R/$m && go test -json -vet=off -count=1 -timeout 25m ./... ); done > /var/tmp/suite.$$.json 2>/var/tmp/suite.$$.err
python3 - /var/tmp/suite.$$.json <<'PY'
import json,sys
p=f=0; failed=[]
for l in open(sys.argv[1]):
    try: e=json.loads(l)
    except: continue
    if 'Test' in e and e.get('Action') in ('pass','fail'):
        if e['Action']=='pass': p+=1
        else: f+=1; failed.append(e['Package']+'::'+e['Test'])
print('suite: pass',p,'fail',f); print('\n'.join(failed))
PY
rm -f /var/tmp/suite.$$.json /var/tmp/suite.$$.err
