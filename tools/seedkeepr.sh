#!/bin/bash
# tools/seedkeepr.sh <round-prefix e.g. R4> <name-suffix> <Cxx> "<needs>" "<caught by>" [exit-before-strengthening]
# archives /tmp/seedwt/<round>Cxx/_seed as seeded/<round>-Cxx-<suffix> using /var/tmp/seedcheck-<round>Cxx.json
R=$1; SUF=$2; ID=$3; NEEDS=$4; CAUGHT=$5; BEFORE=${6:-}
cp /var/tmp/seedcheck-$R$ID.json /var/tmp/seedcheck-$ID.json
N=$R-$ID-$SUF
/verif/tools/seedkeep.sh "$N" $ID /tmp/seedwt/$R$ID/_seed "$NEEDS" "$CAUGHT"
if [ -n "$BEFORE" ]; then python3 - "$N" "$ID" "$BEFORE" <<'PY'
import json,sys
n,idn,before=sys.argv[1:4]
p='/verif/seeded/%s/meta.json'%n
m=json.load(open(p)); m["check_exit_code_before_strengthening"]={idn:int(before)}; json.dump(m,open(p,'w'),indent=1)
PY
fi
