#!/bin/bash
# tools/mutest.sh <patch.diff> <Cxx> [tier]   — run a check against a scratch copy of /repo with a patch
# applied (never touches /repo or /verif's evidence). Prints the check's output and exit code.
# With RUN_SUITE=1 also runs the repository test suite on the patched tree first.
set -u
PATCH=$(readlink -f "$1"); PROP=$2; TIER=${3:-quick}
N=$$
WT=/var/tmp/mut-wt-$N; VD=/var/tmp/mut-vd-$N
cleanup() { git -C /repo worktree remove --force "$WT" >/dev/null 2>&1; rm -rf "$WT" "$VD"; git -C /repo worktree prune; }
trap cleanup EXIT
git -C /repo worktree add --detach "$WT" HEAD >/dev/null 2>&1 || { echo "cannot create worktree"; exit 3; }
# bring uncommitted changes of /repo (there should be none) — then apply the patch
( cd "$WT" && git apply "$PATCH" ) || { echo "patch does not apply"; exit 3; }
if [ "${RUN_SUITE:-0}" = 1 ]; then
  ( cd "$WT" && GOFLAGS= go build ./... && GOFLAGS= go test -vet=off -count=1 ./x/... 2>&1 | grep -v "no test files" | tail -30 )
fi
# mutant builds fill the build cache quickly (and a large sandbox makes snapshots fail): trim it
# (only on request: cleaning while another build runs makes that build fail — MUTEST_TRIM=1 is set by the
# sequential drivers seedregress.sh / mutsweep.py, not by hand-started runs)
if [ "${MUTEST_TRIM:-0}" = 1 ]; then
  if [ "$(du -sm /verif/.cache/go-build 2>/dev/null | cut -f1)" -gt 12000 ] 2>/dev/null; then GOCACHE=/verif/.cache/go-build GOFLAGS= go clean -cache; fi
  if [ "$(du -sm /root/.cache/go-build 2>/dev/null | cut -f1)" -gt 12000 ] 2>/dev/null; then GOFLAGS= go clean -cache; fi
fi
mkdir -p "$VD"
rsync -a --exclude .cache --exclude evidence --exclude replays --exclude .git "${VERIF_SRC:-/verif}/" "$VD/"
export VERIF_DIR=$VD VERIF_REPO=$WT GOCACHE=/verif/.cache/go-build
"$VD/check" "$PROP" "$TIER"
rc=$?
echo "mutest exit=$rc"
exit $rc
