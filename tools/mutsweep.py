#!/usr/bin/env python3
"""tools/mutsweep.py <workers> <out.jsonl> [max_per_file]
Operator-based mutation sweep of OPinit's core sources (never touches /repo: each worker has its own
scratch worktree under /var/tmp). For every mutant that compiles AND passes the repository's own test
suite, the property checks that execute the mutated file are run against it; a mutant for which every
one of them exits 0 is recorded as a SURVIVOR (to be triaged by hand: equivalent mutant, outside the
properties, or a gap in a check)."""
import json, os, re, subprocess, sys, threading, queue, shutil, time

FILES = {
 'x/ophost/keeper/msg_server.go': ['C01','C02','C03','C05','C10','C11','C12','C19','C16'],
 'x/ophost/keeper/output.go': ['C05','C11','C02','C03','C16'],
 'x/ophost/keeper/bridge.go': ['C10','C01','C11','C16'],
 'x/ophost/keeper/withdrawal.go': ['C02','C03','C16'],
 'x/ophost/keeper/token_pair.go': ['C10','C16'],
 'x/ophost/keeper/batch_info.go': ['C16','C12'],
 'x/ophost/keeper/genesis.go': ['C16','C02','C10','C11'],
 'x/ophost/keeper/querier.go': ['C11','C10','C05','C02','C16'],
 'x/ophost/types/output.go': ['C17','C03','C04'],
 'x/ophost/types/denom.go': ['C17','C10'],
 'x/ophost/types/tx.go': ['C03','C05','C10','C12','C07','C04'],
 'x/ophost/types/bridge_config.go': ['C05','C12','C16'],
 'x/ophost/types/genesis.go': ['C16'],
 'x/ophost/types/hook/bridge_hook.go': ['C19'],
 'x/ophost/types/hook/utils.go': ['C19'],
 'x/opchild/keeper/msg_server.go': ['C06','C07','C09','C12','C13','C20','C16'],
 'x/opchild/keeper/deposit.go': ['C07','C06','C09','C08'],
 'x/opchild/keeper/sequences.go': ['C06','C09','C16'],
 'x/opchild/keeper/val_state_change.go': ['C13','C14'],
 'x/opchild/keeper/validator.go': ['C13','C14','C16'],
 'x/opchild/keeper/executor_change.go': ['C14','C12'],
 'x/opchild/keeper/historical_info.go': ['C13'],
 'x/opchild/keeper/genesis.go': ['C16','C06','C09'],
 'x/opchild/keeper/oracle.go': ['C15','C12'],
 'x/opchild/keeper/host_validator_store.go': ['C15'],
 'x/opchild/keeper/keeper.go': ['C15','C12','C09'],
 'x/opchild/keeper/params.go': ['C12','C13','C20'],
 'x/opchild/abci.go': ['C13','C14'],
 'x/opchild/l2connect/utils.go': ['C15'],
 'x/opchild/l2connect/aggregator.go': ['C15'],
 'x/opchild/ante/ante.go': ['C20'],
 'x/opchild/ante/fee.go': ['C20'],
 'x/opchild/ante/fee_utils.go': ['C20'],
 'x/opchild/lanes/free.go': ['C20'],
 'x/opchild/lanes/system.go': ['C20'],
 'x/opchild/types/tx.go': ['C07','C06','C09','C12','C04'],
 'x/opchild/types/params.go': ['C12','C13','C14','C20'],
 'x/opchild/types/validator.go': ['C13','C14','C16'],
}
OPS = [(' <= ', ' < '), (' < ', ' <= '), (' >= ', ' > '), (' > ', ' >= '), (' == ', ' != '), (' != ', ' == '),
       (' && ', ' || '), (' || ', ' && '), ('if !', 'if '), (' + 1', ' + 0'), (' - 1', ' - 0')]

def candidates(repo, maxper):
    out = []
    for f in FILES:
        lines = open(os.path.join(repo, f)).read().split('\n')
        cs = []
        for i, l in enumerate(lines):
            t = l.strip()
            if not t or t.startswith('//') or t.startswith('*') or 'err != nil' in t or 'err == nil' in t or t.startswith('import') or '"' in t and ('Errorf' in t or 'Wrap' in t):
                continue
            for a, b in OPS:
                for m in re.finditer(re.escape(a), l):
                    # not inside a string literal (rough: even number of quotes before)
                    if l[:m.start()].count('"') % 2 == 1:
                        continue
                    cs.append((f, i, m.start(), a, b))
        # spread over the file
        if len(cs) > maxper:
            step = len(cs) / maxper
            cs = [cs[int(k * step)] for k in range(maxper)]
        out += cs
    return out

def sh(cmd, cwd=None, env=None, timeout=1800):
    try:
        p = subprocess.run(cmd, shell=True, cwd=cwd, env=env, stdout=subprocess.PIPE, stderr=subprocess.STDOUT, timeout=timeout)
        return p.returncode, p.stdout.decode(errors='replace')
    except subprocess.TimeoutExpired:
        return 124, 'timeout'

def worker(wid, q, outf, lock, nworkers):
    wt = f'/var/tmp/mutsweep-wt-{wid}'; vd = f'/var/tmp/mutsweep-vd-{wid}'
    sh(f'git -C /repo worktree remove --force {wt}; rm -rf {wt} {vd}; git -C /repo worktree prune; git -C /repo worktree add --detach {wt} HEAD')
    sh(f'mkdir -p {vd} && rsync -a --exclude .cache --exclude evidence --exclude replays --exclude .git --exclude seeded /verif/ {vd}/')
    env = dict(os.environ); env.pop('GOFLAGS', None); env['GOPROXY'] = 'off'
    cenv = dict(os.environ); cenv.update(VERIF_DIR=vd, VERIF_REPO=wt, GOCACHE='/verif/.cache/go-build', VERIF_WORKERS=str(max(2, 16 // nworkers)), VERIF_BUDGET_S='150')
    while True:
        try:
            c = q.get_nowait()
        except queue.Empty:
            break
        f, i, col, a, b = c
        path = os.path.join(wt, f)
        orig = open(path).read()
        lines = orig.split('\n')
        lines[i] = lines[i][:col] + b + lines[i][col + len(a):]
        open(path, 'w').write('\n'.join(lines))
        rec = {'file': f, 'line': i + 1, 'from': a.strip(), 'to': b.strip(), 'text': orig.split('\n')[i].strip()[:160]}
        rc, o = sh('go build ./x/...', cwd=wt, env=env)
        if rc != 0:
            rec['status'] = 'no-compile'
        else:
            rc, o = sh('go test -vet=off -count=1 ./x/...', cwd=wt, env=env)
            if rc != 0:
                rec['status'] = 'killed-by-suite'
            else:
                rec['status'] = 'survived'
                rec['checks'] = {}
                for chk in FILES[f]:
                    rc, o = sh(f'{vd}/check {chk} quick', env=cenv)
                    rec['checks'][chk] = rc
                    if rc == 1:
                        rec['status'] = 'caught'; rec['by'] = chk
                        m = re.search(r'violation detail: \[([^\]]+)\]', o)
                        rec['clause'] = m.group(1) if m else ''
                        break
                    if rc != 0:
                        rec['status'] = 'harness-error'; rec['by'] = chk; rec['out'] = o[-400:]
                        break
        open(path, 'w').write(orig)
        with lock:
            outf.write(json.dumps(rec) + '\n'); outf.flush()
    sh(f'git -C /repo worktree remove --force {wt}; rm -rf {wt} {vd}; git -C /repo worktree prune')

def main():
    n = int(sys.argv[1]); out = sys.argv[2]; maxper = int(sys.argv[3]) if len(sys.argv) > 3 else 8
    cs = candidates('/repo', maxper)
    done = set()
    if os.path.exists(out):
        for l in open(out):
            r = json.loads(l); done.add((r['file'], r['line'], r['from'], r['to']))
    q = queue.Queue()
    for c in cs:
        if (c[0], c[1] + 1, c[3].strip(), c[4].strip()) not in done:
            q.put(c)
    print('candidates', len(cs), 'todo', q.qsize(), flush=True)
    lock = threading.Lock()
    with open(out, 'a') as outf:
        ts = [threading.Thread(target=worker, args=(w, q, outf, lock, n)) for w in range(n)]
        for t in ts: t.start()
        for t in ts: t.join()
    print('done')

main()
