#!/bin/bash
# tools/seedkeep.sh <name> <Cxx> <seed-dir> "<what it needs to manifest>" "<caught by>"  — archive a confirmed seed under /verif/seeded/<name>/
N=$1; ID=$2; SD=$3; NEEDS=$4; CAUGHT=$5
D=/verif/seeded/$N; mkdir -p $D
cp $SD/patch.diff $D/; cp $SD/*_test.go $D/ 2>/dev/null; cp $SD/NOTES.md $D/ 2>/dev/null
python3 - "$D" "$ID" "$NEEDS" "$CAUGHT" /var/tmp/seedcheck-$ID.json <<'PY'
import json,sys,subprocess
d,idn,needs,caught,chk=sys.argv[1:6]
try: c=json.load(open(chk))
except Exception: c={}
meta={"property":idn,"source":"independent sub-agent given only the property text and a scratch worktree",
 "repo_commit":subprocess.check_output(['git','-C','/repo','rev-parse','--short','HEAD']).decode().strip(),
 "needs_to_manifest":needs,"confirmed":{"builds":c.get("build"),"unedited_suite_passes_with_change":c.get("suite_passes_with_change"),
 "demo_fails_with_change":c.get("demo_fails_with"),"demo_passes_without_change":c.get("demo_passes_without"),"demo_package":c.get("demo_pkg"),"demo_test":c.get("demo_test")},
 "ran":"tools/seedcheck.sh %s <seed-dir> (scratch worktree: apply patch, go build, go test ./..., demo test with/without, ./check against the patched tree)"%idn,
 "check_exit_codes":c.get("check_exit"),"caught_by":caught}
json.dump(meta,open(d+'/meta.json','w'),indent=1)
print(d, meta["check_exit_codes"])
PY
