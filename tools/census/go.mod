module census

go 1.22
