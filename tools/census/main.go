// census — type-aware scan of the non-test, non-generated sources of the OPinit modules for sources
// of nondeterminism, and generator of the go build -overlay that turns every `range` over a map into
// iteration over verifmap.Order(site, m), whose order the harness chooses (DESIGN.md §4).
//
// usage: census -repo /repo -out /verif/.cache/overlay [-pkgs ./x/ophost/...,./x/opchild/...]
// writes <out>/findings.json, <out>/overlay.json and the rewritten sources.
package main

import (
	"bytes"
	"encoding/json"
	"flag"
	"fmt"
	"go/ast"
	"go/importer"
	"go/parser"
	"go/token"
	"go/types"
	"io"
	"os"
	"os/exec"
	"path/filepath"
	"sort"
	"strings"
)

type listPkg struct {
	ImportPath string
	Dir        string
	Export     string
	GoFiles    []string
	Standard   bool
	DepOnly    bool
	Module     *struct{ Path, Dir string }
}

type Finding struct {
	Kind   string `json:"kind"`
	File   string `json:"file"`
	Line   int    `json:"line"`
	Detail string `json:"detail"`
	// Instrumented map ranges are owned by the harness; Allowed findings are whitelisted uses.
	Instrumented bool `json:"instrumented,omitempty"`
	Allowed      bool `json:"allowed,omitempty"`
}

func main() {
	repo := flag.String("repo", "/repo", "repository root")
	out := flag.String("out", "", "output directory")
	pkgs := flag.String("pkgs", "./x/ophost/...,./x/opchild/...", "package patterns")
	extra := flag.String("extra", "", "comma-separated import paths of dependency packages whose map ranges are instrumented too (no other findings are reported for them)")
	flag.Parse()
	extraSet := map[string]bool{}
	for _, e := range strings.Split(*extra, ",") {
		if e != "" {
			extraSet[e] = true
		}
	}
	if *out == "" {
		fmt.Fprintln(os.Stderr, "need -out")
		os.Exit(2)
	}
	if err := os.MkdirAll(*out, 0o755); err != nil {
		panic(err)
	}
	args := append([]string{"list", "-export", "-deps", "-json"}, strings.Split(*pkgs, ",")...)
	cmd := exec.Command("go", args...)
	cmd.Dir = *repo
	env := []string{}
	for _, e := range os.Environ() {
		if strings.HasPrefix(e, "GOFLAGS=") { // the repo is a go.work workspace: -mod=mod is not allowed there
			continue
		}
		env = append(env, e)
	}
	cmd.Env = append(env, "GOFLAGS=")
	var stderr bytes.Buffer
	cmd.Stderr = &stderr
	outBz, err := cmd.Output()
	if err != nil {
		fmt.Fprintf(os.Stderr, "go list failed: %v\n%s\n", err, stderr.String())
		os.Exit(2)
	}
	dec := json.NewDecoder(bytes.NewReader(outBz))
	exports := map[string]string{}
	var targets []listPkg
	for {
		var p listPkg
		if err := dec.Decode(&p); err == io.EOF {
			break
		} else if err != nil {
			panic(err)
		}
		if p.Export != "" {
			exports[p.ImportPath] = p.Export
		}
		if (!p.DepOnly && !p.Standard) || extraSet[p.ImportPath] {
			targets = append(targets, p)
		}
	}
	fset := token.NewFileSet()
	imp := importer.ForCompiler(fset, "gc", func(path string) (io.ReadCloser, error) {
		f, ok := exports[path]
		if !ok {
			return nil, fmt.Errorf("no export data for %s", path)
		}
		return os.Open(f)
	})
	var findings []Finding
	replace := map[string]string{}
	for _, p := range targets {
		var files []*ast.File
		names := map[*ast.File]string{}
		for _, f := range p.GoFiles {
			full := filepath.Join(p.Dir, f)
			af, err := parser.ParseFile(fset, full, nil, parser.ParseComments)
			if err != nil {
				fmt.Fprintf(os.Stderr, "parse %s: %v\n", full, err)
				os.Exit(2)
			}
			files = append(files, af)
			names[af] = full
		}
		info := &types.Info{Types: map[ast.Expr]types.TypeAndValue{}, Uses: map[*ast.Ident]types.Object{}}
		conf := types.Config{Importer: imp, Error: func(err error) {}}
		if _, err := conf.Check(p.ImportPath, fset, files, info); err != nil {
			fmt.Fprintf(os.Stderr, "type-check %s: %v\n", p.ImportPath, err)
			os.Exit(2)
		}
		for _, af := range files {
			full := names[af]
			base := filepath.Base(full)
			if strings.HasSuffix(base, ".pb.go") || strings.HasSuffix(base, ".pb.gw.go") || strings.HasSuffix(base, "_test.go") {
				continue
			}
			rel, _ := filepath.Rel(*repo, full)
			if isExtraPkg := extraSet[p.ImportPath]; isExtraPkg {
				rel = p.ImportPath + "/" + base
			}
			src, _ := os.ReadFile(full)
			type edit struct {
				from, to int
				text     string
			}
			var edits []edit
			site := 0
			pos := func(p token.Pos) (int, int) { q := fset.Position(p); return q.Line, q.Offset }
			isExtra := extraSet[p.ImportPath]
			add := func(kind string, p token.Pos, detail string, instr, allowed bool) {
				if isExtra && !instr {
					return // dependency package: only its map ranges are of interest
				}
				l, _ := pos(p)
				findings = append(findings, Finding{Kind: kind, File: rel, Line: l, Detail: detail, Instrumented: instr, Allowed: allowed})
			}
			// parents for the time.Now whitelist
			var stack []ast.Node
			ast.Inspect(af, func(n ast.Node) bool {
				if n == nil {
					stack = stack[:len(stack)-1]
					return true
				}
				stack = append(stack, n)
				switch x := n.(type) {
				case *ast.RangeStmt:
					tv, ok := info.Types[x.X]
					if !ok {
						break
					}
					if _, isMap := tv.Type.Underlying().(*types.Map); !isMap {
						if _, isChan := tv.Type.Underlying().(*types.Chan); isChan {
							add("channel-range", x.For, "range over a channel", false, false)
						}
						break
					}
					simple := false
					switch x.X.(type) {
					case *ast.Ident, *ast.SelectorExpr:
						simple = true
					}
					if !simple {
						add("map-range", x.For, "range over a map expression the overlay generator cannot instrument", false, false)
						break
					}
					line, _ := pos(x.For)
					siteName := fmt.Sprintf("%s:%d", rel, line)
					_, xs := pos(x.X.Pos())
					_, xe := pos(x.X.End())
					mexpr := string(src[xs:xe])
					kv := fmt.Sprintf("__vmk%d", site)
					site++
					var prelude bytes.Buffer
					tok := x.Tok.String()
					isBlank := func(e ast.Expr) bool {
						id, ok := e.(*ast.Ident)
						return e == nil || (ok && id.Name == "_")
					}
					if !isBlank(x.Value) {
						_, vs := pos(x.Value.Pos())
						_, ve := pos(x.Value.End())
						fmt.Fprintf(&prelude, "\n__vmv, __vmok := %s[%s]; if !__vmok { continue }; %s %s __vmv;", mexpr, kv, string(src[vs:ve]), tok)
					} else {
						fmt.Fprintf(&prelude, "\nif _, __vmok := %s[%s]; !__vmok { continue };", mexpr, kv)
					}
					if !isBlank(x.Key) {
						_, ks := pos(x.Key.Pos())
						_, ke := pos(x.Key.End())
						fmt.Fprintf(&prelude, " %s %s %s;", string(src[ks:ke]), tok, kv)
					}
					_, fs := pos(x.For)
					_, lb := pos(x.Body.Lbrace)
					header := fmt.Sprintf("for _, %s := range verifmap.Order(%q, %s) {%s", kv, siteName, mexpr, prelude.String())
					edits = append(edits, edit{fs, lb + 1, header})
					add("map-range", x.For, "range over "+mexpr+" ("+tv.Type.String()+")", true, false)
				case *ast.GoStmt:
					add("goroutine", x.Go, "go statement", false, false)
				case *ast.SelectStmt:
					add("select", x.Select, "select statement", false, false)
				case *ast.SendStmt:
					add("channel-op", x.Arrow, "channel send", false, false)
				case *ast.UnaryExpr:
					if x.Op == token.ARROW {
						add("channel-op", x.OpPos, "channel receive", false, false)
					}
				case *ast.SelectorExpr:
					id, ok := x.X.(*ast.Ident)
					if !ok {
						break
					}
					pn, ok := info.Uses[id].(*types.PkgName)
					if !ok {
						break
					}
					path := pn.Imported().Path()
					switch {
					case path == "time" && (x.Sel.Name == "Now" || x.Sel.Name == "Since" || x.Sel.Name == "Until"):
						allowed := false
						// whitelisted: argument of telemetry.ModuleMeasureSince(...)
						for i := len(stack) - 1; i >= 0; i-- {
							if ce, ok := stack[i].(*ast.CallExpr); ok {
								if se, ok := ce.Fun.(*ast.SelectorExpr); ok && se.Sel.Name == "ModuleMeasureSince" {
									allowed = true
								}
							}
						}
						add("wall-clock", x.Pos(), "time."+x.Sel.Name, false, allowed)
					case path == "math/rand" || path == "math/rand/v2" || path == "crypto/rand":
						add("randomness", x.Pos(), path+"."+x.Sel.Name, false, false)
					case path == "os" && (x.Sel.Name == "Getenv" || x.Sel.Name == "LookupEnv" || x.Sel.Name == "Environ" || x.Sel.Name == "Hostname" || x.Sel.Name == "Getpid"):
						add("environment", x.Pos(), "os."+x.Sel.Name, false, false)
					case path == "runtime" && (x.Sel.Name == "NumGoroutine" || x.Sel.Name == "NumCPU" || x.Sel.Name == "GOMAXPROCS"):
						add("environment", x.Pos(), "runtime."+x.Sel.Name, false, false)
					case path == "unsafe" || path == "reflect" && x.Sel.Name == "MapRange":
						add("unsafe-or-reflect-map", x.Pos(), path+"."+x.Sel.Name, false, false)
					}
				}
				return true
			})
			if len(edits) > 0 {
				sort.Slice(edits, func(i, j int) bool { return edits[i].from > edits[j].from })
				ns := append([]byte{}, src...)
				for _, e := range edits {
					ns = append(ns[:e.from], append([]byte(e.text), ns[e.to:]...)...)
				}
				// add the import right after the package clause
				_, pe := pos(af.Name.End())
				vmPath := "github.com/initia-labs/OPinit/x/verifmap"
				if isExtra && p.Module != nil {
					// a dependency module gets its own copy of the package (it cannot import the repo's)
					vmPath = p.Module.Path + "/verifmapx"
					replace[filepath.Join(p.Module.Dir, "verifmapx", "verifmap.go")] = filepath.Join(*out, "verifmap.go")
				}
				ns = append(ns[:pe], append([]byte("\n\nimport verifmap \""+vmPath+"\"\n"), ns[pe:]...)...)
				dst := filepath.Join(*out, strings.ReplaceAll(rel, "/", "__"))
				if err := os.WriteFile(dst, ns, 0o644); err != nil {
					panic(err)
				}
				replace[full] = dst
			}
		}
	}
	vm := filepath.Join(*out, "verifmap.go")
	if err := os.WriteFile(vm, []byte(verifmapSrc), 0o644); err != nil {
		panic(err)
	}
	replace[filepath.Join(*repo, "x", "verifmap", "verifmap.go")] = vm
	ob, _ := json.MarshalIndent(map[string]any{"Replace": replace}, "", " ")
	if err := os.WriteFile(filepath.Join(*out, "overlay.json"), ob, 0o644); err != nil {
		panic(err)
	}
	sort.Slice(findings, func(i, j int) bool {
		if findings[i].File != findings[j].File {
			return findings[i].File < findings[j].File
		}
		return findings[i].Line < findings[j].Line
	})
	fb, _ := json.MarshalIndent(map[string]any{"findings": findings, "packages": len(targets)}, "", " ")
	if err := os.WriteFile(filepath.Join(*out, "findings.json"), fb, 0o644); err != nil {
		panic(err)
	}
	fmt.Printf("census: %d packages, %d findings, %d files instrumented\n", len(targets), len(findings), len(replace)-1)
}

const verifmapSrc = `// Package verifmap is added to the module by the verification overlay only: every range over a
// map in the instrumented packages iterates over Order(site, m), whose order the harness chooses
// per goroutine (a Go map iteration may produce any order, so every choice is a legal execution).
package verifmap

import (
	"bytes"
	"fmt"
	"runtime"
	"sort"
	"strconv"
	"sync"
)

// Session is bound per goroutine by the harness; Choose is told every instrumented map range that
// is reached (site, number of keys) and answers with the iteration order (nil = canonical order).
type Session struct {
	Choose func(site string, n int) []int
}

var (
	mu       sync.Mutex
	sessions = map[uint64]*Session{}
)

func gid() uint64 {
	var buf [64]byte
	b := buf[:runtime.Stack(buf[:], false)]
	b = bytes.TrimPrefix(b, []byte("goroutine "))
	if i := bytes.IndexByte(b, ' '); i > 0 {
		n, _ := strconv.ParseUint(string(b[:i]), 10, 64)
		return n
	}
	return 0
}

// Bind installs s for the calling goroutine (nil removes it).
func Bind(s *Session) {
	mu.Lock()
	defer mu.Unlock()
	if s == nil {
		delete(sessions, gid())
		return
	}
	sessions[gid()] = s
}

func Order[K comparable, V any](site string, m map[K]V) []K {
	keys := make([]K, 0, len(m))
	for k := range m {
		keys = append(keys, k)
	}
	sort.Slice(keys, func(i, j int) bool { return fmt.Sprint(keys[i]) < fmt.Sprint(keys[j]) })
	mu.Lock()
	s := sessions[gid()]
	mu.Unlock()
	if s == nil || s.Choose == nil {
		return keys
	}
	if perm := s.Choose(site, len(keys)); len(perm) == len(keys) {
		out := make([]K, len(keys))
		for i, p := range perm {
			out[i] = keys[p]
		}
		return out
	}
	return keys
}
`
