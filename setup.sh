#!/bin/bash
# Run once after a fresh restore, offline: builds the harness from files on disk only.
set -e
cd "$(dirname "$0")"
./check build
./.cache/bin/mc selftest
